#!/bin/bash
# seedtest.sh <patch.diff> <ID>... : applies the patch to /repo, runs the quick checks, reverts.
patch=$1; shift
cd /repo || exit 2
if ! git diff --quiet; then echo "repo working tree not clean"; exit 2; fi
git apply "$patch" || { echo "patch does not apply"; exit 2; }
cd /verif
for id in "$@"; do
  out=$(./bin/check "$id" --tier quick 2>&1); rc=$?
  echo "== $id rc=$rc: $(echo "$out" | grep -E '^(VIOLATION|OK|TOOL-ERROR|KNOWN)' | head -2 | tr '\n' ' ')"
  echo "$out" | grep NOTE | head -2
done
git -C /repo checkout -- . 
git -C /repo status --short
