#!/bin/bash
# seedall.sh [name-filter] : runs every kept seeded change against the quick check of its property.
# Uses patch_head.diff (the change ported to the current tree) when present.
cd /verif
for d in seeded/*/; do
  n=$(basename $d)
  [ -n "$1" ] && [[ "$n" != *$1* ]] && continue
  # (meta key check_with: the checks that report the change when it is not the check of `property`)
  prop=$(python3 -c "import json;m=json.load(open('$d/meta.json'));print(' '.join(m.get('check_with',[m['property']])))")
  p=$d/patch.diff; [ -f $d/patch_head.diff ] && p=$d/patch_head.diff
  printf "%-36s " "$n"
  ./tools/seedtest.sh /verif/$p $prop 2>&1 | grep "^==" | cut -c1-120
done
