#!/bin/bash
# seedall.sh [name-filter] : runs every kept seeded change against the quick check of its property.
# Uses patch_head.diff (the change ported to the current tree) when present.
cd /verif
for d in seeded/*/; do
  n=$(basename $d)
  [ -n "$1" ] && [[ "$n" != *$1* ]] && continue
  prop=$(python3 -c "import json;print(json.load(open('$d/meta.json'))['property'])")
  p=$d/patch.diff; [ -f $d/patch_head.diff ] && p=$d/patch_head.diff
  printf "%-36s " "$n"
  ./tools/seedtest.sh /verif/$p $prop 2>&1 | grep "^==" | cut -c1-120
done
