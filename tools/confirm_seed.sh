#!/bin/bash
# confirm_seed.sh <worktree> : confirms a seeded change in its scratch worktree.
#  (1) with the change: the 42 existing tests pass, the demo fails
#  (2) without the change: the demo passes
wt=$1
cd "$wt" || exit 2
export CARGO_TARGET_DIR=$wt/target CARGO_NET_OFFLINE=true
git apply --check -R SEEDED/patch.diff 2>/dev/null || { git checkout -q -- src; git apply SEEDED/patch.diff || exit 2; }
cp SEEDED/seeded_demo.rs tests/seeded_demo.rs
echo "== with change: existing suite"
cargo test --offline --no-fail-fast 2>&1 | grep -E "^test result|^test .*FAILED|Running" | grep -v "^test result: ok. 0 passed" | sed 's/^/   /' | head -40
echo "== with change: demo"
cargo test --offline --test seeded_demo 2>&1 | grep -E "^test result|^test " | sed 's/^/   /'
git apply -R SEEDED/patch.diff || exit 2
echo "== without change: demo"
cargo test --offline --test seeded_demo 2>&1 | grep -E "^test result|^test " | sed 's/^/   /'
git apply SEEDED/patch.diff
