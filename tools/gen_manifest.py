#!/usr/bin/env python3
"""Regenerates MANIFEST.json from the tables below (keeps it valid at all times)."""
import json, os, subprocess
ROOT = os.path.dirname(os.path.dirname(os.path.abspath(__file__)))
CORE_TECH = ("TLA+ spec (PubSubCore/MCCore) model-checked with TLC; TLC-generated scenarios and seeded concurrent "
             "histories executed on the real server and trace-validated by TLC (TraceCore)")
ACT_TECH = ("TLA+ spec DeltioActors (mailboxes, Notify, cancellation) model-checked with TLC incl. vacuity switches; "
            "scenario families / forced schedules / seeded histories on the real server, trace-validated by TLC (TraceCore)")
claimed = {
 "C01": (CORE_TECH, "invariants C01_Conserve/C01_NoSpurious and the fan-out, post, pull, expire guards of PubSubCore; end-of-history drain obligation in TraceCore", "5 C01"),
 "C02": (CORE_TECH, "C02_Final invariant, C02_Stable action property, ack/expire guards (an expiry or delivery of an acknowledged id is a rejected event), expiry schedule vs delivery map", "5 C02"),
 "C03": (CORE_TECH, "C03_Exclusive invariant, freshness and queue-membership guards of SubPull, client-visible deliveries matched to recorded pulls; cancellation families (poll k, drop) for abandoned pulls", "5 C03"),
 "C04": (CORE_TECH, "deadline window guards of SubPull/SubExpire with urgency (no event may pass hand-out + Eff + slack), phase sweep of the hand-out instant", "5 C04"),
 "C05": (CORE_TECH, "SubModify guards (replace, cap 600, nack, atomic reject) with windows taken from the pending client call", "5 C05"),
 "C06": (ACT_TECH, "C06_NoLostWake over all interleavings of post/nack/expiry with the consumers' check-then-wait steps and cancellation (DeltioActors); on the real code: `quiet` events (server at rest) must not find a non-empty backlog with a waiting consumer", "5 C06"),
 "C07": (ACT_TECH, "C07_NoHang / C07_ActorsIdle over all interleavings of delete, publish and CAP+1 requests (DeltioActors, CAP 1..2); on the real code: bursts of up to 40 concurrent requests at capacities 1, 2, 16; any call pending after one hour of virtual time is a `hang` event that no action consumes", "5 C07"),
 "C08": (CORE_TECH, "TopicAccept id-order guard, FIFO in-flight batches per subscription, first-delivery order guards of SubPull / SubPost / requeue", "5 C08"),
 "C09": (CORE_TECH, "content / publish-time ghost maps in TraceCore compared on every delivery; global freshness of ids in TopicAccept", "5 C09"),
 "C10": (CORE_TECH, "manager critical sections as atomic map actions; every client response justified by a validated lookup/insert/remove event inside its call interval", "5 C10"),
 "C11": (CORE_TECH, "attach/remove/delete turns, C11_AttachedExact / C16_Attached at the end of every history, subscription echo of the topic field; cancelled create/delete families", "5 C11"),
 "C12": (ACT_TECH, "C12_Released / C12_Status (DeltioActors, both select! outcomes); on the real code: scenario families A-F x RNG seeds (the seed drives tokio's select! order), prompt-release guards on stream end / blocked pull return", "5 C12"),
 "C13": (CORE_TECH, "listing guards (filter, creation order, skip, take), token round trip learnt from responses, effective page size", "5 C13"),
 "C15": (CORE_TECH, "limit guards of SubPull and of the client response, empty-response rule; 16-bit wrap cases with 66 000-message backlogs in light recording mode", "5 C15"),
 "C16": (ACT_TECH, "C16_Attached + no-hang + no-lost-wake with Cancel at every suspension point of every request kind (DeltioActors, CAP 1, saturating fillers); on the real code: library-level futures polled k times then dropped (all k, empty / saturated mailbox), probes and drain afterwards", "5 C16"),
}
na = {
 "C14": "check not built yet in this round (scripted push endpoint pending); see DESIGN.md 9",
 "C17": "check not built yet in this round (Inputs.tla pending)",
 "C18": "check not built yet in this round (Inputs.tla pending)",
 "C19": "check not built yet in this round (FlowControl.tla pending)",
}
extra = os.path.join(ROOT, "tools", "manifest_extra.json")
if os.path.exists(extra):
    ex = json.load(open(extra))
    for k, v in ex.get("claimed", {}).items():
        claimed[k] = tuple(v)
        na.pop(k, None)
    for k, v in ex.get("na", {}).items():
        na[k] = v
hooks = subprocess.check_output(["git", "-C", "/repo", "log", "--format=%h %s"]).decode().splitlines()
hook_commits = [l.split()[0] for l in hooks if l.split(" ", 1)[1].startswith("verif hooks")]
checks = []
for pid in sorted(claimed):
    tech, txt, ref = claimed[pid]
    checks.append({
        "property_id": pid,
        "quick_cmd": "./bin/check %s --tier quick" % pid,
        "thorough_cmd": "./bin/check %s --tier thorough" % pid,
        "evidence_file": "evidence/%s.json" % pid,
        "replay_cmd_template": "./bin/check %s --replay {path}" % pid,
        "engine": "tla",
        "technique": tech,
        "level_claimed": {"category": "model_checking",
                          "text": "TLC exhausts the model within the configuration's bounds; the implementation is bound by executing TLC-derived scenarios, forced schedules and seeded concurrent histories on the real server and having TLC accept every recorded history against the trace specification, evaluating: " + txt,
                          "design_ref": "DESIGN.md section " + ref},
        "level_note": "bounded model checking + trace validation; trusts TLC, the hook placement (cfg deltio_verif), the harness as executor/recorder; instants recorded at 1 ms granularity",
    })
m = {
 "version": 1,
 "setup_cmd": "./bin/setup",
 "hooks": {"guard": "deltio_verif",
           "enable": "RUSTFLAGS --cfg deltio_verif (set in harness/.cargo/config.toml; the harness depends on /repo by path)",
           "baseline_off_cmd": "cd /repo && cargo nextest run --workspace --no-fail-fast --test-threads 8 --offline || cargo test --workspace --no-fail-fast --offline",
           "source_commits": hook_commits[::-1], "add_only": True},
 "engines": [{"name": "tla", "path": "spec/*.tla, harness/, lib/, bin/check",
              "serves_properties": sorted(claimed),
              "kind_free_text": "explicit TLA+ specifications checked with TLC, bound to the implementation by scenario replay, forced schedules and trace validation"}],
 "checks": checks,
 "not_applicable": [{"property_id": k, "reason": v} for k, v in sorted(na.items())],
 "notes": "All verdicts come from TLC. See DESIGN.md.",
}
json.dump(m, open(os.path.join(ROOT, "MANIFEST.json"), "w"), indent=1)
print("claimed", sorted(claimed), "na", sorted(na))
