#!/usr/bin/env python3
"""Shared machinery of the deltio checks.

Pipeline of one check (see DESIGN.md sections 4 and 6):
  build dvh against /repo's working tree  ->  TLC model-checks the property's configuration
  ->  TLC emits scenarios / the harness draws seeded concurrent histories
  ->  dvh executes them on the real server and records ndjson
  ->  TLC validates every recorded history against the trace specification
  ->  evidence/<ID>.json, exit code.
The only oracle is TLC; this driver moves files, counts, and maps TLC's output to a verdict.
"""
import concurrent.futures
import glob
import hashlib
import json
import os
import random
import re
import shutil
import subprocess
import sys
import time

VERIF = os.path.dirname(os.path.dirname(os.path.abspath(__file__)))
SPEC = os.path.join(VERIF, "spec")
HARNESS = os.path.join(VERIF, "harness")
DVH = os.path.join(HARNESS, "target", "debug", "dvh")
WORK = os.path.join(VERIF, "work")
EVID = os.path.join(VERIF, "evidence")
REPLAYS = os.path.join(VERIF, "replays")
KNOWN = os.path.join(VERIF, "known_findings.json")
TLA_JAR = "/opt/veriftools/tla/tla2tools.jar"

T1 = "projects/p1/topics/t1"
T2 = "projects/p1/topics/t2"
TP2 = "projects/p2/topics/t3"
S1 = "projects/p1/subscriptions/s1"
S2 = "projects/p1/subscriptions/s2"
SP2 = "projects/p2/subscriptions/s3"


class ToolError(Exception):
    pass


def log(*a):
    print(*a, file=sys.stderr, flush=True)


def sh(cmd, timeout=None, env=None, cwd=None, check=False):
    e = dict(os.environ)
    if env:
        e.update(env)
    try:
        p = subprocess.run(cmd, stdout=subprocess.PIPE, stderr=subprocess.STDOUT, timeout=timeout, env=e, cwd=cwd)
    except subprocess.TimeoutExpired as ex:
        out = (ex.stdout or b"").decode("utf-8", "replace")
        raise ToolError("timeout after %ss: %s\n%s" % (timeout, " ".join(cmd)[:200], out[-2000:]))
    out = p.stdout.decode("utf-8", "replace")
    if check and p.returncode != 0:
        raise ToolError("command failed (%d): %s\n%s" % (p.returncode, " ".join(cmd)[:300], out[-3000:]))
    return p.returncode, out


def build_harness():
    """Rebuilds dvh, and with it deltio from /repo's current working tree (hooks on)."""
    t0 = time.time()
    env = {"CARGO_NET_OFFLINE": "true"}
    rc, out = sh(["cargo", "build", "--offline"], timeout=1800, env=env, cwd=HARNESS)
    if rc != 0:
        raise ToolError("cargo build of the harness failed:\n" + out[-4000:])
    return time.time() - t0


# --------------------------------------------------------------------------------------
# TLC
# --------------------------------------------------------------------------------------
def write_cfg(path, spec, constants, invariants=(), properties=(), view=None, constraint=None, postcondition=None):
    lines = ["SPECIFICATION %s" % spec, "CHECK_DEADLOCK FALSE"]
    if view:
        lines.append("VIEW %s" % view)
    if constraint:
        lines.append("CONSTRAINT %s" % constraint)
    lines.append("CONSTANTS")
    for k, v in constants.items():
        lines.append("  %s = %s" % (k, tla_value(v)))
    if invariants:
        lines.append("INVARIANT " + " ".join(invariants))
    if properties:
        lines.append("PROPERTY " + " ".join(properties))
    if postcondition:
        lines.append("POSTCONDITION %s" % postcondition)
    with open(path, "w") as f:
        f.write("\n".join(lines) + "\n")


def tla_value(v):
    if isinstance(v, bool):
        return "TRUE" if v else "FALSE"
    if isinstance(v, int):
        return str(v)
    if isinstance(v, str):
        return '"%s"' % v
    if isinstance(v, (set, frozenset, list, tuple)):
        items = sorted(v, key=lambda x: (str(type(x)), x)) if isinstance(v, (set, frozenset)) else list(v)
        inner = ", ".join(tla_value(x) for x in items)
        return "{%s}" % inner if isinstance(v, (set, frozenset)) else "<<%s>>" % inner
    raise ValueError(v)


def run_tlc(module, cfg, workdir, workers=8, timeout=900, env=None, extra=()):
    """Runs TLC on spec/<module>.tla with the given cfg file. Returns (rc, output)."""
    os.makedirs(workdir, exist_ok=True)
    meta = os.path.join(workdir, "tlc-meta-%d-%d" % (os.getpid(), random.randrange(1 << 30)))
    cmd = ["timeout", str(timeout), "java", "-XX:+UseParallelGC", "-Xss1g", "-Xmx%dg" % (5 if workers == 1 else 16),
           "-cp", TLA_JAR + ":/opt/veriftools/tla/CommunityModules-deps.jar", "tlc2.TLC",
           "-workers", str(workers), "-metadir", meta, "-cleanup", "-noGenerateSpecTE",
           "-config", cfg] + list(extra) + [os.path.join(SPEC, module + ".tla")]
    e = {"JAVA_TOOL_OPTIONS": ""}
    if env:
        e.update(env)
    rc, out = sh(cmd, timeout=timeout + 30, env=e, cwd=SPEC)
    shutil.rmtree(meta, ignore_errors=True)
    return rc, out


MC_STATS = re.compile(r"(\d+) states generated, (\d+) distinct states found")


def parse_mc(out):
    m = None
    for m in MC_STATS.finditer(out):
        pass
    if not m:
        return None
    return {"generated": int(m.group(1)), "distinct": int(m.group(2))}


def tlc_failed(out):
    """Returns a description if TLC reported an error (invariant, property, evaluation)."""
    m = re.search(r"Error: (Invariant (\S+) is violated|Action property (\S+) is violated|Temporal properties were violated|.*)", out)
    if m and "Model checking completed. No error has been found." not in out:
        return m.group(1)
    return None


def model_check(module, cfg_path, workdir, workers=8, timeout=900):
    rc, out = run_tlc(module, cfg_path, workdir, workers=workers, timeout=timeout)
    stats = parse_mc(out)
    err = tlc_failed(out)
    return {"rc": rc, "out": out, "stats": stats, "error": err}


EDGE_RE = re.compile(r'^<<"EDGE", "(.*)">>$')


def parse_edges(out):
    edges = []
    for line in out.splitlines():
        m = EDGE_RE.match(line.strip())
        if m:
            try:
                edges.append(json.loads(json.loads('"' + m.group(1) + '"')))
            except Exception:
                pass
    return edges


# --------------------------------------------------------------------------------------
# Scenarios
# --------------------------------------------------------------------------------------
SPECIAL_PAYLOADS = ["bin", "utf8", "empty", "attrs", "big", "ws"]


def op_to_steps(o, idx, special=False):
    """Maps one operation record of MCCore to harness steps."""
    op = o["op"]
    c = 1
    if op == "CreateTopic":
        return [{"do": "call", "c": c, "call": {"op": "CreateTopic", "name": o["name"]}}]
    if op == "DeleteTopic":
        return [{"do": "call", "c": c, "call": {"op": "DeleteTopic", "name": o["name"]}}]
    if op == "GetTopic":
        return [{"do": "call", "c": c, "call": {"op": "GetTopic", "name": o["name"]}}]
    if op == "CreateSub":
        return [{"do": "call", "c": c, "call": {"op": "CreateSub", "name": o["name"], "topic": o["topic"], "ack": o["ack"]}}]
    if op == "DeleteSub":
        return [{"do": "call", "c": c, "call": {"op": "DeleteSub", "name": o["name"]}}]
    if op == "GetSub":
        return [{"do": "call", "c": c, "call": {"op": "GetSub", "name": o["name"]}}]
    if op == "Publish":
        msgs = []
        for k in range(o["n"]):
            if special:
                msgs.append({"p": "%s#%d-%d" % (SPECIAL_PAYLOADS[(idx + k) % len(SPECIAL_PAYLOADS)], idx, k)})
            else:
                msgs.append({"p": "m%d-%d" % (idx, k)})
        return [{"do": "call", "c": c, "call": {"op": "Publish", "topic": o["topic"], "msgs": msgs}}]
    if op == "Pull":
        return [{"do": "call", "c": c, "call": {"op": "Pull", "sub": o["sub"], "max": o["max"], "ri": True}}]
    if op == "PullWait":
        return [{"do": "call", "c": c, "call": {"op": "Pull", "sub": o["sub"], "max": o["max"], "ri": False}}]
    if op in ("Ack", "ModAck"):
        acks = [({"d": a} if a < 90 else {"lit": str(a)}) for a in o["acks"]]
        call = {"op": op, "sub": o["sub"], "acks": acks}
        if op == "ModAck":
            call["secs"] = o["secs"]
        return [{"do": "call", "c": c, "call": call}]
    if op == "Advance":
        return [{"do": "advance", "ms": o["d"]}]
    if op == "Walk":
        return [{"do": "walk", "c": c, "kind": o["kind"], "arg": o["arg"], "size": o["size"]}]
    raise ToolError("unknown op " + op)


def proj_map():
    m = {}
    for p in (1, 2):
        for k in range(1, 5):
            m["projects/p%d/topics/t%d" % (p, k)] = "p%d" % p
            m["projects/p%d/subscriptions/s%d" % (p, k)] = "p%d" % p
    return m


def scale_ops(ops, unit_ms, sec_scale):
    """The model counts in abstract seconds; the implementation's minimum deadline is 10 s.
    Model second k (of MinAckSec = 2) maps to k * sec_scale real seconds."""
    out = []
    for o in ops:
        o = dict(o)
        if o["op"] == "Advance":
            o["d"] = o["d"] * unit_ms
        if o["op"] == "ModAck" and o["secs"] > 0:
            o["secs"] = o["secs"] * sec_scale
        if o["op"] == "CreateSub":
            o["ack"] = o["ack"] * sec_scale
        out.append(o)
    return out


def edges_to_scenarios(edges, prefix, unit_ms=5000, sec_scale=5, special=False, phases=(0,), caps=(16,),
                       drain=True, limit=None, seed=0, offset_ms=0):
    """Each edge (history h, operation o) is one scenario h + [o]. Scenarios that are proper
    prefixes of other scenarios are dropped (they are executed as part of the longer one)."""
    seqs = set()
    for e in edges:
        ops = list(e["h"]) + [e["o"]]
        seqs.add(json.dumps(ops, sort_keys=True))
    seqs = sorted(seqs)
    keep = []
    for i, s in enumerate(seqs):
        body = s[:-1]  # without the closing bracket: a proper extension starts with body + ","
        nxt = seqs[i + 1] if i + 1 < len(seqs) else ""
        if nxt.startswith(body + ","):
            continue
        keep.append(json.loads(s))
    rnd = random.Random(seed)
    if limit is not None and len(keep) > limit:
        rnd.shuffle(keep)
        keep = keep[:limit]
    scenarios = []
    for i, ops in enumerate(keep):
        ops = scale_ops(ops, unit_ms, sec_scale)
        steps = []
        if offset_ms:
            steps.append({"do": "advance", "ms": offset_ms})
        for idx, o in enumerate(ops):
            steps.extend(op_to_steps(o, idx, special=special))
        if drain:
            steps.append({"do": "drain", "c": 9})
        scenarios.append({
            "id": "%s-%d" % (prefix, i),
            "cap": caps[i % len(caps)],
            "seed": seed * 100003 + i,
            "phase": phases[i % len(phases)],
            "meta": {"clock": "paused", "proj": proj_map(), "src": prefix},
            "steps": steps,
        })
    return scenarios, len(seqs)


def write_scenarios(path, scenarios):
    with open(path, "w") as f:
        for s in scenarios:
            f.write(json.dumps(s) + "\n")


# --------------------------------------------------------------------------------------
# Execution on the real code and validation
# --------------------------------------------------------------------------------------
def dvh_replay(scn_path, out_prefix, chunks, threads=12, timeout=1800):
    rc, out = sh([DVH, "replay", scn_path, "--out", out_prefix, "--chunks", str(chunks), "--threads", str(threads)],
                 timeout=timeout)
    if rc != 0:
        raise ToolError("dvh replay failed:\n" + out[-3000:])
    return sorted(glob.glob(out_prefix + ".*.ndjson"))


def dvh_explore(profile, seed_from, seed_to, out_prefix, chunks, threads=12, timeout=1800):
    # profiles named mt:<p> run on the multi-threaded runtime under the real clock
    mode = "explore"
    if profile.startswith("mt:"):
        mode, profile = "mt", profile[3:]
    rc, out = sh([DVH, mode, "--profile", profile, "--seeds", "%d..%d" % (seed_from, seed_to),
                  "--out", out_prefix, "--chunks", str(chunks), "--threads", str(threads)], timeout=timeout)
    if rc != 0:
        raise ToolError("dvh explore failed:\n" + out[-3000:])
    return sorted(glob.glob(out_prefix + ".*.ndjson"))


TRACE_CFG_CONSTANTS = {"SecMs": 1000, "MinAckSec": 10, "MaxModSec": 600, "Slack": 999, "Gran": 1, "MinWait": 1000, "Prompt": 1000, "WaitLimit": 300000}
TRACE_INVARIANTS = ["Inv_C01", "Inv_C02", "Inv_C03", "Inv_C09", "Inv_C10", "Inv_C11", "Summary"]

LINE_RE = re.compile(r'^<<"(VIOL|DRIFT|SUMMARY|STUCK)", "(.*)">>$')


def validate_one(trace_path, workdir, module="TraceCore", timeout=1200, cfg_constants=None, invariants=None):
    trace_path = os.path.abspath(trace_path)
    workdir = os.path.abspath(workdir)
    cfg = os.path.join(workdir, module + ".cfg")
    if not os.path.exists(cfg):
        write_cfg(cfg, "TraceSpec", cfg_constants or TRACE_CFG_CONSTANTS, invariants=invariants or TRACE_INVARIANTS,
                  postcondition="TraceAccepted")
    rc, out = run_tlc(module, cfg, workdir, workers=1, timeout=timeout, env={"TRACE": trace_path},
                      extra=())
    res = {"trace": trace_path, "viol": [], "drift": [], "summary": None, "stuck": None, "error": None, "events": 0}
    for line in out.splitlines():
        m = LINE_RE.match(line.strip())
        if not m:
            continue
        try:
            payload = json.loads(json.loads('"' + m.group(2) + '"'))
        except Exception:
            continue
        kind = m.group(1)
        if kind == "VIOL":
            payload["props"] = sorted({q for pp in payload.get("props", []) for q in pp.split(",")})
            res["viol"].append(payload)
        elif kind == "DRIFT":
            res["drift"].append(payload)
        elif kind == "SUMMARY":
            res["summary"] = payload
        elif kind == "STUCK":
            res["stuck"] = payload
    st = parse_mc(out)
    if st:
        res["events"] = st["distinct"] - 1
    m = re.search(r"Error: Invariant (Inv_(C\d+)) is violated", out)
    if m:
        res["viol"].append({"run": "?", "i": -1, "k": "invariant", "line": -1, "props": [m.group(2)], "invariant": m.group(1)})
    elif "Model checking completed. No error has been found." not in out:
        err = re.search(r"Error: (.*)", out)
        res["error"] = (err.group(1) if err else "TLC did not complete") + " | " + out[-1500:]
    return res


MAX_PIECE_LINES = 25000


def split_trace(path, max_lines=MAX_PIECE_LINES):
    """TLC holds a whole trace file in memory (about 50 kB per event): big files are cut at history
    boundaries (`reset` events) into pieces of at most max_lines lines (a longer single history stays whole)."""
    with open(path) as f:
        lines = f.readlines()
    if len(lines) <= max_lines:
        return [path]
    starts = [i for i, line in enumerate(lines) if '"k":"reset"' in line[:400]]
    if not starts or starts[0] != 0:
        starts = [0] + starts
    bounds = starts + [len(lines)]
    pieces, cur_start = [], 0
    for h in range(len(starts)):
        end = bounds[h + 1]
        if end - cur_start > max_lines and starts[h] > cur_start:
            pieces.append((cur_start, starts[h]))
            cur_start = starts[h]
    pieces.append((cur_start, len(lines)))
    out = []
    base = path[:-len(".ndjson")] if path.endswith(".ndjson") else path
    for k, (x, y) in enumerate(pieces):
        pp = "%s.p%02d.ndjson" % (base, k)
        with open(pp, "w") as f:
            f.writelines(lines[x:y])
        out.append(pp)
    return out


def validate_traces(paths, workdir, parallel=8):
    results = []
    pieces = []
    for p in paths:
        if os.path.getsize(p) > 0:
            pieces += split_trace(p)
    with concurrent.futures.ThreadPoolExecutor(max_workers=parallel) as ex:
        futs = [ex.submit(validate_one, p, workdir) for p in pieces]
        for f in futs:
            results.append(f.result())
    return results


def history_of(trace_path, run_id):
    """The events of one history of an ndjson file."""
    out = []
    take = False
    with open(trace_path) as f:
        for line in f:
            if '"k":"reset"' in line:
                take = ('"run":"%s"' % run_id) in line
            if take:
                out.append(line.rstrip("\n"))
    return out


def count_histories(paths):
    n = 0
    kinds = {}
    for p in paths:
        with open(p) as f:
            for line in f:
                m = re.search(r'"k":"([^"]+)"', line)
                if m:
                    kinds[m.group(1)] = kinds.get(m.group(1), 0) + 1
                    if m.group(1) == "reset":
                        n += 1
    return n, kinds


# --------------------------------------------------------------------------------------
# Known findings, verdicts, evidence
# --------------------------------------------------------------------------------------
def load_known():
    if not os.path.exists(KNOWN):
        return []
    with open(KNOWN) as f:
        return json.load(f).get("findings", [])


def matches_known(prop, viol, event, known):
    """A violation is a known finding only if its specific signature is listed."""
    for k in known:
        if k.get("status") != "known" or k.get("property") != prop:
            continue
        sig = k.get("signature", {})
        if sig.get("k") and sig["k"] != viol.get("k"):
            continue
        ok = True
        for field, want in sig.get("event", {}).items():
            if event is None or event.get(field) != want:
                ok = False
        if ok:
            return k
    return None


def event_at(trace_path, line_no):
    try:
        with open(trace_path) as f:
            for i, line in enumerate(f, 1):
                if i == line_no:
                    return json.loads(line)
    except Exception:
        return None
    return None


def save_replay(prop, n, payload):
    os.makedirs(REPLAYS, exist_ok=True)
    path = os.path.join(REPLAYS, "%s-%d.json" % (prop, n))
    with open(path, "w") as f:
        json.dump(payload, f, indent=1)
    return path


def write_evidence(prop, tier, seed, level, coverage, assumptions, wall, violations):
    os.makedirs(EVID, exist_ok=True)
    ev = {
        "property_id": prop,
        "tier": tier,
        "seed": seed,
        "level": level,
        "coverage": coverage,
        "assumptions": assumptions,
        "wall_s": round(wall, 2),
        "violations": violations,
    }
    with open(os.path.join(EVID, prop + ".json"), "w") as f:
        json.dump(ev, f, indent=1, sort_keys=True)
    return ev


# --------------------------------------------------------------------------------------
# DeltioActors model-checking runs
# --------------------------------------------------------------------------------------
def turns_mc(workdir, name, ops, switches=None, invariants=("InvCore", "InvRest", "InvNoDeadAttached", "InvMapsLive", "InvAcceptedPosted"),
             workers=8, timeout=900, max_expiries=0):
    """MCTurns: concurrent client processes over the core contract at turn granularity.
    ops: dict process id -> TLA record text of its operation."""
    workdir = os.path.abspath(workdir)
    os.makedirs(workdir, exist_ok=True)
    mod = "MCT_" + name
    arms = " [] ".join('p = "%s" -> %s' % (p, rec) for p, rec in ops.items())
    with open(os.path.join(workdir, mod + ".tla"), "w") as f:
        f.write("---- MODULE %s ----\nEXTENDS MCTurns\nOpDef == [p \\in Procs |-> CASE %s]\n====\n" % (mod, arms))
    sw = dict(AtomicCreate=False, AtomicDelete=False, AttachChecksDeleting=True, UnregisterFirst=True)
    if switches:
        sw.update(switches)
    lines = ["SPECIFICATION Spec", "CHECK_DEADLOCK FALSE", "CONSTANTS", "  SecMs = 1", "  MinAckSec = 2", "  MaxModSec = 4",
             "  Slack = 0", "  Gran = 0", "  Procs = %s" % tla_value(set(ops.keys())), "  Op <- OpDef", "  MaxExpiries = %d" % max_expiries]
    for k, v in sw.items():
        lines.append("  %s = %s" % (k, tla_value(v)))
    lines.append("INVARIANT " + " ".join(invariants))
    cfg = os.path.join(workdir, mod + ".cfg")
    with open(cfg, "w") as f:
        f.write("\n".join(lines) + "\n")
    meta = os.path.join(workdir, "tlc-meta-%s-%d" % (name, os.getpid()))
    cmd = ["timeout", str(timeout), "java", "-XX:+UseParallelGC", "-Xss64m", "-Xmx16g", "-DTLA-Library=" + SPEC,
           "-cp", TLA_JAR + ":/opt/veriftools/tla/CommunityModules-deps.jar", "tlc2.TLC",
           "-workers", str(workers), "-metadir", meta, "-cleanup", "-noGenerateSpecTE",
           "-config", cfg, os.path.join(workdir, mod + ".tla")]
    rc, out = sh(cmd, timeout=timeout + 30, env={"JAVA_TOOL_OPTIONS": ""}, cwd=workdir)
    shutil.rmtree(meta, ignore_errors=True)
    err = None
    if "Model checking completed. No error has been found." not in out:
        m = re.search(r"Error: (Invariant (\S+) is violated|.*)", out)
        if not m:
            # killed by the timeout or by the system: no verdict (exit 2), never a violation
            raise ToolError("TLC did not complete on %s (timeout %ss or killed):\n%s" % (mod, timeout, out[-1500:]))
        err = m.group(1)
    return {"stats": parse_mc(out), "error": err, "out": out, "trace": [l for l in out.splitlines() if l.startswith("State ")]}


REPAIRED = dict(DeleteDrainsMailbox=True, ClosedMeansNotFound=True, PullWatchesDeleted=True, AttachDetached=True,
                PullHandsOnWakeup=True, SecondDeleteWaits=True, ExitDrainsGranted=True,
                RemoveSendOutsideDrainLoop=False, NoRenotifyAfterPartialPull=False, SignalCreatedAfterPull=False, PostDoesNotNotify=False)


def actors_mc(workdir, name, procs, subs=("s1",), cap=2, switches=None, invariants=(), allow_cancel=(),
              init_attached=("s1",), backlog=0, max_expire=1, workers=8, timeout=900, properties=(), spec="Spec"):
    """procs: dict process id -> (kind, target subscription). Returns dict(stats, error, out)."""
    workdir = os.path.abspath(workdir)
    os.makedirs(workdir, exist_ok=True)
    mod = "MCA_" + name
    kinds = " [] ".join('p = "%s" -> "%s"' % (p, k) for p, (k, _) in procs.items())
    targets = " [] ".join('p = "%s" -> "%s"' % (p, t) for p, (_, t) in procs.items())
    with open(os.path.join(workdir, mod + ".tla"), "w") as f:
        f.write("---- MODULE %s ----\nEXTENDS DeltioActors\n" % mod)
        f.write("KindDef == [p \\in Procs |-> CASE %s]\n" % kinds)
        f.write("TargetDef == [p \\in Procs |-> CASE %s]\n====\n" % targets)
    sw = dict(REPAIRED)
    if switches:
        sw.update(switches)
    lines = ["SPECIFICATION " + spec, "CONSTANTS",
             "  Subs = %s" % tla_value(set(subs)),
             "  Procs = %s" % tla_value(set(procs.keys())),
             "  Kind <- KindDef", "  Target <- TargetDef",
             "  CAP = %d" % cap, "  MaxExpire = %d" % max_expire,
             "  AllowCancel = %s" % tla_value(set(allow_cancel)),
             "  InitAttached = %s" % tla_value(set(init_attached)),
             "  InitBacklog = %d" % backlog]
    for k, v in sw.items():
        lines.append("  %s = %s" % (k, tla_value(v)))
    if invariants:
        lines.append("INVARIANT " + " ".join(invariants))
    if properties:
        lines.append("PROPERTY " + " ".join(properties))
    cfg = os.path.join(workdir, mod + ".cfg")
    with open(cfg, "w") as f:
        f.write("\n".join(lines) + "\n")
    meta = os.path.join(workdir, "tlc-meta-%s-%d" % (name, os.getpid()))
    cmd = ["timeout", str(timeout), "java", "-XX:+UseParallelGC", "-Xss64m", "-Xmx16g", "-DTLA-Library=" + SPEC,
           "-cp", TLA_JAR + ":/opt/veriftools/tla/CommunityModules-deps.jar", "tlc2.TLC",
           "-workers", str(workers), "-metadir", meta, "-cleanup", "-noGenerateSpecTE",
           "-config", cfg, os.path.join(workdir, mod + ".tla")]
    rc, out = sh(cmd, timeout=timeout + 30, env={"JAVA_TOOL_OPTIONS": ""}, cwd=workdir)
    shutil.rmtree(meta, ignore_errors=True)
    err = None
    m = re.search(r"Error: (Invariant (\S+) is violated|Deadlock reached|Temporal properties were violated|.*)", out)
    if "Model checking completed. No error has been found." not in out:
        if not m:
            # killed by the timeout or by the system: no verdict (exit 2), never a violation
            raise ToolError("TLC did not complete on %s (timeout %ss or killed):\n%s" % (mod, timeout, out[-1500:]))
        err = m.group(1)
    trace = [l for l in out.splitlines() if l.startswith("State ")]
    return {"stats": parse_mc(out), "error": err, "out": out, "trace": trace, "config": {"procs": procs, "cap": cap, "switches": sw}}
