"""Per-property check plans (DESIGN.md section 5)."""
import json
import os
import shutil
import time

import vcheck as V
from vcheck import T1, T2, TP2, S1, S2, SP2

ALL_KINDS = {"CreateTopic", "DeleteTopic", "CreateSub", "DeleteSub", "Publish", "Pull", "Ack", "ModAck",
             "Advance", "PullWait", "GetTopic", "GetSub", "Walk"}

BASE = dict(SecMs=1, MinAckSec=2, MaxModSec=1000, Slack=0, Gran=0,
            TopicNames={T1}, SubNames={S1, S2}, P2Names=set(),
            AckSecs={0}, ModSecs={0, 1, 3}, PubSizes={1, 2}, PullMaxes={1, 2}, Advances={1, 2},
            AckRefs={1, 2}, WalkSizes=set(), Reads=False,
            OpKinds={"CreateTopic", "CreateSub", "Publish", "Pull", "Ack", "ModAck", "Advance"},
            MaxOps=6, MaxNow=6, MaxMsgs=2, Emit=True, Negatives=False)

MC_INVARIANTS = ["Inv"]
MC_PROPERTIES = ["C02_Stable", "C03_Fresh", "C08_Monotone"]

# Event kinds whose presence makes a recorded history non-trivial for a property.
RELEVANT = {
    "C17": {"ret", "send"},
    "C14": {"http"},
    "C01": {"s.post"}, "C02": {"s.ack"}, "C03": {"s.pull"}, "C04": {"s.expire"}, "C05": {"s.mod"},
    "C08": {"t.accept"}, "C09": {"s.pull", "srecv"}, "C10": {"m.ct", "m.cs", "m.rs", "m.rt"},
    "C11": {"t.remove", "t.delete", "s.del1"}, "C13": {"m.lt", "m.ls", "t.list"}, "C15": {"s.pull"},
}

ASSUMPTIONS = [
    "TLC 1.8 and the CommunityModules Json/IOUtils are correct",
    "the hook call sites in /repo (cfg deltio_verif) are at the critical sections DESIGN.md 1.3 names",
    "the harness executes and records faithfully (in-memory gRPC transport, paused seeded tokio runtime)",
    "recorded instants are truncated to milliseconds: earliness below 1 ms is not decided (constant Gran)",
    "exhaustive only within the constants of the model-checking configuration; beyond that seeds are samples",
]


def cfg(over=None, **kw):
    c = dict(BASE)
    if over:
        c.update(over)
    c.update(kw)
    return c


def histories_info(paths):
    """Per history: id and the set of event kinds."""
    infos = []
    cur = None
    for p in paths:
        with open(p) as f:
            for line in f:
                try:
                    e = json.loads(line)
                except Exception:
                    continue
                if e.get("k") == "reset":
                    cur = {"run": e.get("run"), "kinds": set(), "n": 0, "file": p}
                    infos.append(cur)
                elif cur is not None:
                    cur["kinds"].add(e.get("k"))
                    cur["n"] += 1
    return infos


T1R = '"%s"' % T1
T2R = '"%s"' % T2
S1R = '"%s"' % S1
S2R = '"%s"' % S2


def turns_configs(quick):
    a = {"ct": '[op |-> "CreateTopic", name |-> %s]' % T1R,
         "cs": '[op |-> "CreateSub", name |-> %s, topic |-> %s]' % (S1R, T1R),
         "ds": '[op |-> "DeleteSub", name |-> %s]' % S1R,
         "pub": '[op |-> "Publish", topic |-> %s, n |-> 1]' % T1R,
         "pl": '[op |-> "Pull", sub |-> %s, max |-> 1]' % S1R}
    b = {"ct": '[op |-> "CreateTopic", name |-> %s]' % T1R,
         "cs": '[op |-> "CreateSub", name |-> %s, topic |-> %s]' % (S1R, T1R),
         "cs2": '[op |-> "CreateSub", name |-> %s, topic |-> %s]' % (S1R, T1R),
         "ds": '[op |-> "DeleteSub", name |-> %s]' % S1R,
         "ds2": '[op |-> "DeleteSub", name |-> %s]' % S1R,
         "pub": '[op |-> "Publish", topic |-> %s, n |-> 2]' % T1R}
    c = {"ct": '[op |-> "CreateTopic", name |-> %s]' % T1R,
         "ct2": '[op |-> "CreateTopic", name |-> %s]' % T1R,
         "dt": '[op |-> "DeleteTopic", name |-> %s]' % T1R,
         "cs": '[op |-> "CreateSub", name |-> %s, topic |-> %s]' % (S1R, T1R),
         "pub": '[op |-> "Publish", topic |-> %s, n |-> 1]' % T1R,
         "pub2": '[op |-> "Publish", topic |-> %s, n |-> 1]' % T1R,
         "pl": '[op |-> "Pull", sub |-> %s, max |-> 2]' % S1R}
    # data path under concurrency: pulls, an ack, a nack and one expiry turn racing with the publish
    e = {"ct": '[op |-> "CreateTopic", name |-> %s]' % T1R,
         "cs": '[op |-> "CreateSub", name |-> %s, topic |-> %s]' % (S1R, T1R),
         "pub": '[op |-> "Publish", topic |-> %s, n |-> 2]' % T1R,
         "pl": '[op |-> "Pull", sub |-> %s, max |-> 1]' % S1R,
         "pl2": '[op |-> "Pull", sub |-> %s, max |-> 2]' % S1R,
         "nk": '[op |-> "Nack", sub |-> %s, acks |-> {1}]' % S1R,
         "ak": '[op |-> "Ack", sub |-> %s, acks |-> {1, 2}]' % S1R}
    cfgs = [("a", a), ("b", b), ("c", c), ("e", e)]
    if not quick:
        d = dict(b)
        d["cs3"] = '[op |-> "CreateSub", name |-> %s, topic |-> %s]' % (S2R, T1R)
        d["pl"] = '[op |-> "Pull", sub |-> %s, max |-> 1]' % S1R
        d["ak"] = '[op |-> "Ack", sub |-> %s, acks |-> {1}]' % S1R
        cfgs.append(("d", d))
    return cfgs


def turns_check(prop, work, quick, violations):
    """All interleavings of concurrent clients at turn granularity (MCTurns): adds to the states of
    the check, and the pinned design (attach of a subscription that is being deleted) must be rejected."""
    total = {"generated": 0, "distinct": 0}
    for name, ops in turns_configs(quick):
        r = V.turns_mc(os.path.join(work, "mct"), name, ops, max_expiries=1)
        if r["stats"]:
            total["generated"] += r["stats"]["generated"]
            total["distinct"] += r["stats"]["distinct"]
        if r["error"]:
            path = V.save_replay(prop, 0, {"kind": "model", "module": "MCTurns", "config": name, "error": r["error"],
                                           "trace": r["trace"], "tlc_output_tail": r["out"][-4000:]})
            violations.append(("model MCTurns %s: %s" % (name, r["error"]), path))
    pinned = V.turns_mc(os.path.join(work, "mct"), "pinned", turns_configs(True)[0][1], switches={"AttachChecksDeleting": False})
    if not pinned["error"]:
        raise V.ToolError("vacuity: MCTurns without the attach check satisfies its invariants")
    return total


def core_check(prop, tier, seed, t0, mc_over, scen=None, explore=(), special=False, phases=(0, 37, 99, 50, 1),
               caps=(16,), adv_extra=(0, 101), extra_scenarios=None, thorough=None, level_note="", turns=False):
    quick = tier == "quick"
    work = os.path.join(V.WORK, prop)
    shutil.rmtree(work, ignore_errors=True)
    os.makedirs(work)
    build_s = V.build_harness()

    # 1. Model check the sequential API model for this property's alphabet and emit the edges.
    mcc = cfg(mc_over)
    if not quick and thorough:
        mcc.update(thorough.get("mc", {}))
    cfg_path = os.path.join(work, "MCCore.cfg")
    V.write_cfg(cfg_path, "Spec", mcc, invariants=MC_INVARIANTS, properties=MC_PROPERTIES, view="View")
    mc = V.model_check("MCCore", cfg_path, work, workers=8, timeout=1500 if not quick else 600)
    with open(os.path.join(work, "mc.out"), "w") as f:
        f.write(mc["out"])
    if mc["stats"] is None:
        raise V.ToolError("TLC gave no statistics for MCCore:\n" + mc["out"][-2000:])
    violations = []
    if mc["error"]:
        path = V.save_replay(prop, 0, {"kind": "model", "error": mc["error"], "cfg": mcc_json(mcc),
                                       "tlc_output_tail": mc["out"][-6000:]})
        violations.append(("model: " + mc["error"], path))
    edges = V.parse_edges(mc["out"])
    if turns:
        tt = turns_check(prop, work, quick, violations)
        mc["stats"] = {"generated": mc["stats"]["generated"] + tt["generated"], "distinct": mc["stats"]["distinct"] + tt["distinct"]}

    # 2. Scenarios from the edges, executed on the real code.
    limit = (scen or {}).get("quick", 300) if quick else (scen or {}).get("thorough", 4000)
    scenarios, n_all = V.edges_to_scenarios(edges, prop.lower(), special=special, phases=phases, caps=caps,
                                            limit=limit, seed=seed)
    # boundary probing: every other scenario overshoots each model instant by one rounding step
    for i, s in enumerate(scenarios):
        extra = adv_extra[i % len(adv_extra)]
        if extra:
            for st in s["steps"]:
                if st["do"] == "advance":
                    st["ms"] += extra
    if extra_scenarios:
        scenarios.extend(extra_scenarios(quick, seed))
    scn_path = os.path.join(work, "scenarios.ndjson")
    V.write_scenarios(scn_path, scenarios)
    chunks = 8 if quick else 16
    traces = V.dvh_replay(scn_path, os.path.join(work, "replay"), chunks)

    # 3. Seeded concurrent histories.
    for (profile, nq, nt) in explore:
        n = nq if quick else nt
        traces += V.dvh_explore(profile, seed * 100000, seed * 100000 + n, os.path.join(work, "explore-" + profile.replace(":", "_")), chunks)

    # 4. Validation by TLC.
    results = V.validate_traces(traces, work, parallel=8 if quick else 14)
    return finish(prop, tier, seed, t0, work, mc, scenarios, traces, results, violations, n_all, build_s, level_note)


def mcc_json(mcc):
    return {k: (sorted(v, key=str) if isinstance(v, (set, frozenset)) else v) for k, v in mcc.items()}


def finish(prop, tier, seed, t0, work, mc, scenarios, traces, results, violations, n_all, build_s, level_note,
           extra_cov=None):
    known = V.load_known()
    tool_errors = [r["error"] for r in results if r["error"]]
    accepted = sum((r["summary"] or {}).get("ok", 0) for r in results)
    rejected = sum((r["summary"] or {}).get("bad", 0) for r in results)
    drift = sum(len(r["drift"]) for r in results)
    events = sum(r["events"] for r in results)
    known_lines = []
    others = {}
    n = len(violations)
    for r in results:
        if r["stuck"]:
            tool_errors.append("trace not fully consumed: %s" % json.dumps(r["stuck"])[:300])
        for v in r["viol"]:
            ev = V.event_at(r["trace"], v.get("line", -1))
            v["props"] = sorted({q for pp in v.get("props", []) for q in pp.split(",")})
            if prop in v["props"]:
                k = V.matches_known(prop, v, ev, known)
                if k:
                    known_lines.append("KNOWN-FINDING: property=%s %s (%s, run %s)" % (prop, k["what"], k["id"], v.get("run")))
                    continue
                n += 1
                path = V.save_replay(prop, n, {
                    "kind": "history", "violation": v, "event": ev, "trace_file": r["trace"],
                    "history": V.history_of(r["trace"], v.get("run")),
                    "scenario": next((s for s in scenarios if s["id"] == v.get("run")), None),
                    "how": "bin/check %s --replay <this file>" % prop,
                })
                violations.append(("history %s event %s (%s)" % (v.get("run"), v.get("i"), v.get("k")), path))
            else:
                for q in v.get("props", []):
                    others[q] = others.get(q, 0) + 1
    infos = histories_info(traces)
    rel = RELEVANT.get(prop, set())
    nontrivial = len({h["run"] for h in infos if h["kinds"] & rel})
    kinds = {}
    for h in infos:
        for k in h["kinds"]:
            kinds[k] = kinds.get(k, 0) + 1
    sample_hist = []
    if infos:
        h = max(infos, key=lambda x: (len(x["kinds"] & rel), x["n"]))
        sample_hist = V.history_of(h["file"], h["run"])[:40]
    coverage = {
        "states": mc["stats"]["distinct"] if mc and mc["stats"] else 0,
        "transitions": mc["stats"]["generated"] if mc and mc["stats"] else 0,
        "traces_validated_against_impl": accepted,
        "samples": [
            {"scenario": scenarios[0] if scenarios else None},
            {"recorded_history_excerpt": sample_hist},
        ],
        "evaluations": len(infos),
        "distinct_nontrivial": nontrivial,
        "rule": "one evaluation = one history executed on the real server and validated by TLC against "
                "TraceCore; non-trivial = contains at least one of the event kinds %s; distinct by scenario / seed id" % sorted(rel),
        "histories_rejected": rejected,
        "histories_with_state_adoption(drift)": drift,
        "events_validated": events,
        "scenarios_from_model_edges": len(scenarios),
        "model_edges_total": n_all,
        "event_kinds_seen_in_histories": kinds,
        "violations_of_other_properties_seen": others,
        "build_s": round(build_s, 1),
        "exhaustive": False,
    }
    if extra_cov:
        coverage.update(extra_cov)
    for line in known_lines[:20]:
        print(line)
    wall = time.time() - t0
    if tool_errors and not violations:
        V.write_evidence(prop, tier, seed, "model_checking", coverage, V_ASSUME(level_note), wall, 0)
        raise V.ToolError("; ".join(tool_errors)[:3000])
    V.write_evidence(prop, tier, seed, "model_checking", coverage, V_ASSUME(level_note), wall, len(violations))
    if violations:
        for what, path in violations[:10]:
            print("VIOLATION property=%s replay=%s" % (prop, path))
            V.log("  ", what)
        return 1
    if others.get("BIND"):
        # recorded events that no action of the specification can be bound to (an unknown internal id,
        # a turn no request explains): those histories were NOT judged, so "held on everything
        # explored" cannot be said - and no property can be blamed either
        raise V.ToolError("%d histories could not be bound to the specification (conformance failure that is not "
                          "attributable to a property); they were not judged" % others["BIND"])
    print("OK property=%s tier=%s histories=%d accepted=%d states=%d wall=%.1fs"
          % (prop, tier, len(infos), accepted, coverage["states"], wall))
    if others:
        print("NOTE: violations attributed to other properties were seen: %s" % json.dumps(others))
    return 0


def V_ASSUME(note):
    return ASSUMPTIONS + ([note] if note else [])


def run_replay_file(prop, path):
    """Re-executes the scenario of a replay file (or re-validates its recorded history)."""
    with open(path) as f:
        rep = json.load(f)
    work = os.path.join(V.WORK, prop + "-replay")
    shutil.rmtree(work, ignore_errors=True)
    os.makedirs(work)
    V.build_harness()
    traces = []
    if rep.get("scenario"):
        scn = os.path.join(work, "scenario.ndjson")
        V.write_scenarios(scn, [rep["scenario"]])
        traces = V.dvh_replay(scn, os.path.join(work, "replay"), 1)
    elif rep.get("history"):
        p = os.path.join(work, "history.0.ndjson")
        with open(p, "w") as f:
            f.write("\n".join(rep["history"]) + "\n")
        traces = [p]
    else:
        print("replay file has neither scenario nor history")
        return 2
    results = V.validate_traces(traces, work, parallel=1)
    bad = [v for r in results for v in r["viol"] if prop in v.get("props", [])]
    for r in results:
        if r["error"]:
            print("TOOL-ERROR", r["error"][:500])
            return 2
    if bad:
        print("VIOLATION property=%s replay=%s" % (prop, path))
        print(json.dumps(bad[0]))
        return 1
    print("OK replay accepted")
    return 0


# --------------------------------------------------------------------------------------
# The plans.
# --------------------------------------------------------------------------------------
def plan_c01(prop, tier, seed, t0):
    over = dict(TopicNames={T1, T2}, SubNames={S1, S2}, ModSecs={0}, AckRefs={1, 2}, Advances={2}, PubSizes={1, 2},
                PullMaxes={2},
                OpKinds={"CreateTopic", "CreateSub", "DeleteSub", "DeleteTopic", "Publish", "Pull", "Ack", "ModAck", "Advance"},
                MaxOps=6, MaxMsgs=2)
    def extra(quick, sd):
        # backlogs beyond the pull cap (1000) and beyond 16 bits, judged on sizes (light recording)
        out = []
        for i, (n, mx) in enumerate([(2500, 2000), (1001, 1001), (3000, 1000), (66000, 65535), (1500, 2147483647)]):
            steps = [call(1, op="CreateTopic", name=T1), call(1, op="CreateSub", name=S1, topic=T1, ack=10),
                     call(1, op="Publish", topic=T1, msgs=[{"p": "bulk:%d" % n}])]
            for _ in range(4):
                steps.append(call(2, op="Pull", sub=S1, max=mx, ri=True))
            steps += [{"do": "advance", "ms": 11000}, call(2, op="Pull", sub=S1, max=mx, ri=True),
                      call(2, op="ModAck", sub=S1, acks=[{"d": 1}, {"d": 2}], secs=0), call(2, op="Pull", sub=S1, max=mx, ri=True)]
            s = scn("c01-big-%d" % i, steps, seed=sd + i)
            s["meta"]["light"] = True
            out.append(s)
        # hundreds of deliveries that expire at the same instant while requests arrive in that very
        # instant (the expiry turn must be all-or-nothing whatever else is in the mailbox)
        for i, n in enumerate((300, 600) if quick else (256, 257, 300, 600, 1000)):
            for lead in (0, 1):
                steps = [call(1, op="CreateTopic", name=T1), call(1, op="CreateSub", name=S1, topic=T1, ack=10),
                         call(1, op="Publish", topic=T1, msgs=[{"p": "bulk:%d" % n}]),
                         call(2, op="Pull", sub=S1, max=1000, ri=True),
                         {"do": "advance", "ms": 10000 - lead}]
                for j in range(12):
                    steps.append(start("g%d" % j, 10 + j, op=("GetSub" if j % 3 else "Pull"), **(dict(name=S1) if j % 3 else dict(sub=S1, max=1, ri=True))))
                steps += [{"do": "advance", "ms": 1 + lead}, {"do": "waitall"}, {"do": "advance", "ms": 200},
                          call(3, op="Pull", sub=S1, max=1000, ri=True), call(3, op="Pull", sub=S1, max=1000, ri=True)]
                s = scn("c01-massexpiry-%d-%d" % (n, lead), steps, seed=sd + i, phase=0, cap=(16, 2)[lead])
                s["meta"]["light"] = True
                out.append(s)
        return out
    # ... and requests abandoned at every suspension point (a message picked for a consumer that has
    # gone, a publish whose caller went away) must not lose anything either
    return core_check(prop, tier, seed, t0, over, explore=[("mixed", 48, 1500), ("data", 24, 1500), ("consumers", 24, 1500)], caps=(16, 1, 2),
                      extra_scenarios=lambda quick, sd: extra(quick, sd)
                      + cancel_scenarios(sd, kinds={"Pull", "Ack", "ModAck", "ModAck30", "Publish", "PublishBig", "DeleteSub"}, quick=quick)
                      + refused_next_to_live_scenarios(sd, quick) + twins_scenarios(sd, quick) + idle_scenarios(sd, quick),
                      thorough={"mc": dict(MaxOps=7, MaxMsgs=3)}, turns=True)


def plan_c02(prop, tier, seed, t0):
    over = dict(AckRefs={1, 2, 99}, ModSecs={0}, Advances={1, 2}, MaxOps=6, MaxNow=6)
    return core_check(prop, tier, seed, t0, over, explore=[("data", 48, 1500)],
                      extra_scenarios=lambda quick, sd: stream_ctrl_scenarios(sd, quick)
                      + cancel_scenarios(sd, kinds={"Pull", "Ack"}, quick=quick) + big_batch_scenarios(sd, quick) + twins_scenarios(sd, quick),
                      thorough={"mc": dict(MaxOps=7, MaxMsgs=3, AckRefs={1, 2, 3, 99})})


def big_batch_scenarios(seed, quick):
    """Acknowledge / ModifyAckDeadline requests (unary and inside a StreamingPull control message)
    that name hundreds of deliveries in one request: all of them are carried out."""
    out = []
    for i, n in enumerate((257, 300) if quick else (257, 300, 513, 1000)):
        for kind in ("ack", "nack", "stream-ack", "extend"):
            acks = [{"d": j} for j in range(1, n + 1)]
            steps = [call(1, op="CreateTopic", name=T1), call(1, op="CreateSub", name=S1, topic=T1, ack=10),
                     call(1, op="Publish", topic=T1, msgs=[{"p": "bulk:%d" % n}])]
            if kind == "stream-ack":
                steps += [{"do": "sopen", "h": "s", "c": 2, "sub": S1, "max": 1000}, {"do": "settle"},
                          {"do": "ssend", "h": "s", "acks": acks}, {"do": "settle"}, {"do": "quiet"}]
            else:
                steps.append(call(2, op="Pull", sub=S1, max=1000, ri=True))
                if kind == "ack":
                    steps.append(call(2, op="Ack", sub=S1, acks=acks))
                elif kind == "nack":
                    steps += [call(2, op="ModAck", sub=S1, acks=acks, secs=0), call(2, op="Pull", sub=S1, max=1000, ri=True)]
                else:
                    steps.append(call(2, op="ModAck", sub=S1, acks=acks, secs=30))
            steps += [{"do": "advance", "ms": 11000}, call(3, op="Pull", sub=S1, max=1000, ri=True),
                      {"do": "advance", "ms": 25000}, call(3, op="Pull", sub=S1, max=1000, ri=True)]
            if kind == "stream-ack":
                steps.append({"do": "sabandon", "h": "s"})
            steps.append({"do": "drain", "c": 9})
            out.append(scn("bigbatch-%s-%d" % (kind, n), steps, seed=seed + i))
    return out


def refused_next_to_live_scenarios(seed, quick):
    """Requests that are REFUSED (duplicate creates with other settings, creates on a missing or
    foreign topic, deletes / publishes / acks addressed to absent names, malformed ack ids) while a
    topic with two subscriptions is live and holds queued and outstanding messages: the live
    resources keep their configuration, their backlog and their deadlines."""
    out = []
    TP = "projects/p2/topics/t3"
    for k in range(3 if quick else 9):
        refused = [call(3, op="CreateTopic", name=T1),
                   call(3, op="CreateSub", name=S1, topic=T1, ack=60),
                   call(3, op="CreateSub", name=S1, topic=T2, ack=10),
                   call(3, op="CreateSub", name=S1, topic=TP, ack=10),
                   call(3, op="CreateSub", name=S2, topic="projects/p1/topics/none", ack=10),
                   call(3, op="CreateSub", name="projects/p2/subscriptions/s3", topic=T1, ack=10),
                   call(3, op="CreateSub", name="projects/p1/subscriptions/s4", topic=TP, ack=10, push="http://127.0.0.1:9/x"),
                   call(3, op="DeleteTopic", name="projects/p1/topics/none"),
                   call(3, op="DeleteSub", name="projects/p1/subscriptions/none"),
                   call(3, op="Publish", topic="projects/p1/topics/none", msgs=[{"p": "lost"}]),
                   call(3, op="Ack", sub=S1, acks=[{"lit": "abc"}, {"d": 1}]),
                   call(3, op="ModAck", sub=S1, acks=[{"d": 1}], secs=-1),
                   call(3, op="Pull", sub="projects/p1/subscriptions/none", max=1, ri=True),
                   call(3, op="GetTopic", name="projects/p1/topics/none")]
        r = (k * 5) % len(refused)
        steps = [call(1, op="CreateTopic", name=T1), call(1, op="CreateTopic", name=T2), call(1, op="CreateTopic", name=TP),
                 call(1, op="CreateSub", name=S1, topic=T1, ack=10 + 10 * (k % 2)),
                 call(1, op="CreateSub", name=S2, topic=T1, ack=10),
                 call(1, op="Publish", topic=T1, msgs=[{"p": "r%d-a" % k}, {"p": "r%d-b" % k}, {"p": "r%d-c" % k}]),
                 call(2, op="Pull", sub=S1, max=1, ri=True), {"do": "advance", "ms": 2000}]
        steps += refused[r:] + refused[:r]
        steps += [call(2, op="GetSub", name=S1), call(2, op="GetSub", name=S2), call(2, op="GetTopic", name=T1),
                  call(2, op="ListTopicSubs", topic=T1, size=0, token=""), call(2, op="ListTopicSubs", topic=T2, size=0, token=""),
                  call(2, op="ListSubs", project="projects/p1", size=0, token=""), call(2, op="ListSubs", project="projects/p2", size=0, token=""),
                  call(2, op="GetSub", name="projects/p2/subscriptions/s3"), call(2, op="GetSub", name="projects/p1/subscriptions/s4"),
                  call(2, op="Pull", sub=S1, max=10, ri=True), call(2, op="Pull", sub=S2, max=10, ri=True),
                  call(2, op="Publish", topic=T1, msgs=[{"p": "r%d-d" % k}]),
                  {"do": "advance", "ms": 9000 + 10000 * (k % 2)}, call(2, op="Pull", sub=S1, max=10, ri=True),
                  {"do": "advance", "ms": 12000}, call(2, op="Pull", sub=S1, max=10, ri=True), call(2, op="Pull", sub=S2, max=10, ri=True),
                  {"do": "drain", "c": 9}]
        s2 = scn("refused-live-%d" % k, steps, seed=seed * 100 + k, cap=(16, 1, 2)[k % 3])
        s2["meta"]["proj"][TP] = "p2"
        out.append(s2)
    return out


def prefix_project_scenarios(seed, quick):
    """Projects whose ids are prefixes of each other (p, p1, p1x, p10): a project is its WHOLE id.
    Listings of one never show resources of another, and a subscription is never created on a topic
    of another project - also not of one whose id merely begins (or ends) the same way."""
    out = []
    projects = ["p1", "p1x", "p", "p10"]
    for k in range(2 if quick else 6):
        rot = projects[k % 4:] + projects[:k % 4]
        extra = {}
        steps = []
        for pr in rot:
            for j in (1, 2):
                tn = "projects/%s/topics/t%d" % (pr, j)
                extra[tn] = pr
                steps.append(call(1, op="CreateTopic", name=tn))
        for pr in rot:
            for j in (1, 2):
                sn = "projects/%s/subscriptions/s%d" % (pr, j)
                extra[sn] = pr
                steps.append(call(1, op="CreateSub", name=sn, topic="projects/%s/topics/t1" % pr, ack=10))
        size = (0, 1, 3, 1000)[k % 4]
        walks = []
        for pr in rot:
            walks.append({"do": "walk", "c": 1, "kind": "topics", "arg": "projects/" + pr, "size": size})
            walks.append({"do": "walk", "c": 1, "kind": "subs", "arg": "projects/" + pr, "size": size})
            walks.append({"do": "walk", "c": 1, "kind": "topicsubs", "arg": "projects/%s/topics/t1" % pr, "size": size})
            walks.append({"do": "walk", "c": 1, "kind": "topicsubs", "arg": "projects/%s/topics/t2" % pr, "size": size})
        # (even k: the listings come first, so that a leak between projects is judged as what it is
        # before a wrongly accepted create is)
        if k % 2 == 0:
            steps += walks
        # creates across projects that share a beginning: all refused, nothing created
        for a, b in [("p1", "p1x"), ("p1x", "p1"), ("p", "p1"), ("p1", "p"), ("p10", "p1"), ("p1", "p10")]:
            sn = "projects/%s/subscriptions/s9" % a
            extra[sn] = a
            steps.append(call(2, op="CreateSub", name=sn, topic="projects/%s/topics/t2" % b, ack=10))
            steps.append(call(2, op="GetSub", name=sn))
        steps.append(call(1, op="Publish", topic="projects/p1/topics/t1", msgs=[{"p": "pp%d" % k}]))
        steps += walks
        for pr in rot:
            steps.append(call(2, op="Pull", sub="projects/%s/subscriptions/s1" % pr, max=5, ri=True))
        steps.append({"do": "drain", "c": 9})
        out.append(scn("prefix-projects-%d" % k, steps, seed=seed * 10 + k, extra_proj=extra))
    return out


def listing_walk_scenarios(seed, quick):
    """More resources than one default page, walked with page sizes 0, 7, 20, 1000 and 5000 (beyond the
    cap), also right after deleting and creating in the middle of a walk's range."""
    out = []
    n = 25 if quick else 45
    for i, size in enumerate((0, 7, 5000) if quick else (0, 1, 7, 20, 1000, 1001, 5000, 2147483647)):
        steps = [call(1, op="CreateTopic", name="projects/p1/topics/t%d" % (k + 10)) for k in range(n)]
        steps += [call(1, op="CreateSub", name="projects/p1/subscriptions/s%d" % (k + 10), topic="projects/p1/topics/t10", ack=10) for k in range(n)]
        walks = [{"do": "walk", "c": 1, "kind": "topics", "arg": "projects/p1", "size": size},
                 {"do": "walk", "c": 1, "kind": "subs", "arg": "projects/p1", "size": size},
                 {"do": "walk", "c": 1, "kind": "topicsubs", "arg": "projects/p1/topics/t10", "size": size}]
        steps += walks + [call(1, op="DeleteSub", name="projects/p1/subscriptions/s%d" % (n // 2 + 10)),
                          call(1, op="DeleteTopic", name="projects/p1/topics/t%d" % (n // 2 + 10))] + walks
        proj = V.proj_map()
        for k in range(n):
            proj["projects/p1/topics/t%d" % (k + 10)] = "p1"
            proj["projects/p1/subscriptions/s%d" % (k + 10)] = "p1"
        s2 = scn("walks-%d" % i, steps, seed=seed + i, extra_proj=proj)
        out.append(s2)
    return out


def empty_batch_scenarios(seed):
    """Requests whose batch is empty (no ack ids, no messages, no modifications) are still addressed
    to a name: on an absent or deleted name they answer NOT_FOUND like any other request."""
    S9, T9 = "projects/p1/subscriptions/s4", "projects/p1/topics/t4"
    def probes(c):
        return [call(c, op="Ack", sub=S1, acks=[]), call(c, op="ModAck", sub=S1, acks=[], secs=0),
                call(c, op="ModAck", sub=S1, acks=[], secs=30), call(c, op="Ack", sub=S9, acks=[]),
                call(c, op="ModAck", sub=S9, acks=[], secs=10), call(c, op="Publish", topic=T9, msgs=[]),
                call(c, op="Publish", topic=T1, msgs=[]), call(c, op="Pull", sub=S9, max=1, ri=True),
                call(c, op="Pull", sub=S1, max=1, ri=True)]
    steps = probes(2) + [call(1, op="CreateTopic", name=T1)] + probes(3) + [call(1, op="CreateSub", name=S1, topic=T1, ack=10)] \
        + probes(4) + [call(1, op="Publish", topic=T1, msgs=[{"p": "e1"}])] + probes(5) \
        + [call(1, op="DeleteSub", name=S1)] + probes(6) + [call(1, op="DeleteTopic", name=T1)] + probes(7) + [{"do": "drain", "c": 9}]
    return [scn("empty-batches", steps, seed=seed)]


def orphan_scenarios(seed, quick):
    """A subscription that outlives its topic keeps serving what it holds: deliveries outstanding when
    the topic is deleted come back after their deadlines, queued messages stay, nacks work."""
    out = []
    for k in range(4 if quick else 12):
        steps = [call(1, op="CreateTopic", name=T1), call(1, op="CreateSub", name=S1, topic=T1, ack=10 + 5 * (k % 2)),
                 call(1, op="CreateSub", name=S2, topic=T1, ack=10),
                 call(1, op="Publish", topic=T1, msgs=[{"p": "o%d-%d" % (k, j)} for j in range(4)]),
                 call(2, op="Pull", sub=S1, max=2, ri=True), {"do": "advance", "ms": 1000 * (k % 4)},
                 call(2, op="Pull", sub=S2, max=1, ri=True)]
        if k % 2:
            steps += [{"do": "sopen", "h": "s", "c": 5, "sub": S2, "max": 1}, {"do": "settle"}]
        steps += [call(1, op="DeleteTopic", name=T1)]
        if k % 3 == 1:
            steps.append(call(1, op="CreateTopic", name=T1))
        if k % 2 == 0:
            # a consumer that starts waiting on the orphan (S2 has one delivery outstanding, one queued
            # message is taken first): it gets what comes back at the deadline, not an early empty answer
            steps += [call(2, op="Pull", sub=S2, max=10, ri=True), start("w", 6, op="Pull", sub=S2, max=10, ri=False), {"do": "settle"}]
        steps += [call(2, op="ModAck", sub=S1, acks=[{"d": 1}], secs=(0, 30, 5)[k % 3]),
                  {"do": "advance", "ms": 9000}, call(3, op="Pull", sub=S1, max=10, ri=True),
                  {"do": "advance", "ms": 7000}, call(3, op="Pull", sub=S1, max=10, ri=True), call(3, op="Pull", sub=S2, max=10, ri=True),
                  {"do": "advance", "ms": 25000}, call(3, op="Pull", sub=S1, max=10, ri=True), call(3, op="Pull", sub=S2, max=10, ri=True),
                  call(3, op="GetSub", name=S1)]
        if k % 2:
            steps.append({"do": "sabandon", "h": "s"})
        else:
            steps.append({"do": "wait", "h": "w"})
        steps.append({"do": "drain", "c": 9})
        out.append(scn("orphan-%d" % k, steps, seed=seed * 100 + k, phase=(k * 29) % 100))
    return out


def ack_deadline_scenarios(seed, quick):
    """Subscriptions created with ack deadlines across the whole range (below the minimum, ordinary,
    at and beyond 600 s): a delivery is not handed out again 2 s before ITS deadline and is 2 s after."""
    out = []
    for i, a in enumerate((0, 5, 10, 11, 60, 600, 601, 900) if quick else (0, 1, 5, 9, 10, 11, 37, 60, 599, 600, 601, 610, 900, 3600, 86400)):
        d = max(a, 10)
        steps = [call(1, op="CreateTopic", name=T1), call(1, op="CreateSub", name=S1, topic=T1, ack=a),
                 call(1, op="GetSub", name=S1), call(1, op="ListSubs", project="projects/p1", size=0, token=""),
                 call(1, op="Publish", topic=T1, msgs=[{"p": "ad%d-a" % a}, {"p": "ad%d-b" % a}]),
                 call(2, op="Pull", sub=S1, max=1, ri=True),
                 {"do": "advance", "ms": d * 1000 - 2000}, call(2, op="Pull", sub=S1, max=1, ri=True),
                 {"do": "advance", "ms": 1900}, call(3, op="GetSub", name=S1),
                 {"do": "advance", "ms": 2100}, call(2, op="Pull", sub=S1, max=10, ri=True),
                 {"do": "advance", "ms": d * 1000 + 1500}, call(2, op="Pull", sub=S1, max=10, ri=True),
                 {"do": "drain", "c": 9}]
        out.append(scn("ackdl-%d" % a, steps, seed=seed + i, phase=(i * 37) % 100))
    return out


def zero_limit_scenarios(seed, quick):
    """Pulls and streams whose batch limit is zero as a 16-bit value, followed by ordinary ones at other
    instants: every delivery still gets an ack id of its own and a lease of its own."""
    out = []
    for k, z in enumerate((0, 65536, -2147483648) if quick else (0, 65536, 131072, -2147483648, 65537)):
        steps = [call(1, op="CreateTopic", name=T1), call(1, op="CreateSub", name=S1, topic=T1, ack=20),
                 call(1, op="Publish", topic=T1, msgs=[{"p": "z%d-%d" % (k, j)} for j in range(4)]),
                 call(2, op="Pull", sub=S1, max=z, ri=True), {"do": "advance", "ms": 3000},
                 call(2, op="Pull", sub=S1, max=1, ri=True), {"do": "advance", "ms": 3000},
                 {"do": "sopen", "h": "s", "c": 3, "sub": S1, "max": 0 if k % 2 == 0 else 1}, {"do": "settle"}, {"do": "sabandon", "h": "s"},
                 call(2, op="Pull", sub=S1, max=z, ri=True),
                 {"do": "advance", "ms": 15000}, call(2, op="Pull", sub=S1, max=10, ri=True),
                 {"do": "advance", "ms": 4000}, call(2, op="Pull", sub=S1, max=10, ri=True),
                 {"do": "drain", "c": 9}]
        out.append(scn("zero-limit-%d" % k, steps, seed=seed * 100 + k, phase=(k * 17) % 100))
    return out


def twins_scenarios(seed, quick):
    """Two topics with two subscriptions each, used in lock step: whatever happens to one subscription
    (acks, nacks, expiry, deletion, deletion of its topic) leaves the others exactly as they were."""
    out = []
    S3, S4 = "projects/p1/subscriptions/s3", "projects/p1/subscriptions/s4"
    for k in range(4 if quick else 16):
        steps = [call(1, op="CreateTopic", name=T1), call(1, op="CreateTopic", name=T2),
                 call(1, op="CreateSub", name=S1, topic=T1, ack=10), call(1, op="CreateSub", name=S2, topic=T1, ack=10 + 5 * (k % 2)),
                 call(1, op="CreateSub", name=S3, topic=T2, ack=10), call(1, op="CreateSub", name=S4, topic=T2, ack=20)]
        for j in range(3):
            steps += [call(2, op="Publish", topic=T1, msgs=[{"p": "tw%d-a%d" % (k, j)}]),
                      call(2, op="Publish", topic=T2, msgs=[{"p": "tw%d-b%d" % (k, j)}, {"p": "tw%d-c%d" % (k, j)}])]
        steps += [call(3, op="Pull", sub=S1, max=2, ri=True), call(3, op="Pull", sub=S2, max=2, ri=True),
                  call(3, op="Pull", sub=S3, max=3, ri=True), call(3, op="Pull", sub=S4, max=1, ri=True),
                  {"do": "advance", "ms": 1000 + 700 * (k % 3)}]
        variants = [
            [call(4, op="Ack", sub=S1, acks=[{"d": 1}, {"d": 2}]), call(4, op="ModAck", sub=S3, acks=[{"d": 1}], secs=0)],
            [call(4, op="ModAck", sub=S2, acks=[{"d": 1}], secs=40), call(4, op="DeleteSub", name=S3)],
            [call(4, op="DeleteTopic", name=T2), call(4, op="Ack", sub=S3, acks=[{"d": 2}])],
            [call(4, op="DeleteSub", name=S1), call(4, op="CreateSub", name=S1, topic=T2, ack=10),
             call(4, op="Publish", topic=T2, msgs=[{"p": "tw%d-late" % k}])],
        ]
        steps += variants[k % 4]
        steps += [{"do": "advance", "ms": 9500}, call(5, op="Pull", sub=S1, max=10, ri=True), call(5, op="Pull", sub=S2, max=10, ri=True),
                  call(5, op="Pull", sub=S3, max=10, ri=True), call(5, op="Pull", sub=S4, max=10, ri=True),
                  {"do": "advance", "ms": 12000}, call(5, op="Pull", sub=S1, max=10, ri=True), call(5, op="Pull", sub=S2, max=10, ri=True),
                  call(5, op="Pull", sub=S3, max=10, ri=True), call(5, op="Pull", sub=S4, max=10, ri=True),
                  call(5, op="ListTopicSubs", topic=T1, size=0, token=""), call(5, op="ListSubs", project="projects/p1", size=0, token=""),
                  {"do": "drain", "c": 9}]
        out.append(scn("twins-%d" % k, steps, seed=seed * 100 + k, phase=(k * 31) % 100, cap=(16, 1, 2)[k % 3]))
    return out


def idle_scenarios(seed, quick):
    """Long idle periods (ten minutes, an hour, a day) with nothing outstanding, an idle stream open
    all the while: the next publish is delivered at once, nothing is re-ordered or delivered twice."""
    out = []
    for k in range(3 if quick else 8):
        idle = (3600_000, 86_400_000, 600_001, 1_000_000)[k % 4]
        steps = [call(1, op="CreateTopic", name=T1), call(1, op="CreateSub", name=S1, topic=T1, ack=10),
                 call(1, op="Publish", topic=T1, msgs=[{"p": "id%d-a" % k}, {"p": "id%d-b" % k}]),
                 call(2, op="Pull", sub=S1, max=10, ri=True), call(2, op="Ack", sub=S1, acks=[{"d": 1}, {"d": 2}]),
                 {"do": "sopen", "h": "s", "c": 3, "sub": S1, "max": 5}, {"do": "settle"},
                 {"do": "advance", "ms": idle},
                 call(2, op="Publish", topic=T1, msgs=[{"p": "id%d-c" % k}]), {"do": "settle"}, {"do": "quiet"},
                 {"do": "ssend", "h": "s", "acks": [{"d": 3}]}, {"do": "settle"}, {"do": "quiet"},
                 {"do": "advance", "ms": idle // 2},
                 call(2, op="Publish", topic=T1, msgs=[{"p": "id%d-d" % k}, {"p": "id%d-e" % k}]), {"do": "settle"}, {"do": "quiet"},
                 {"do": "ssend", "h": "s", "acks": [{"d": 4}], "mods": [[{"d": 5}, 0]]}, {"do": "settle"}, {"do": "quiet"},
                 {"do": "ssend", "h": "s", "acks": [{"d": 6}]}, {"do": "settle"},
                 {"do": "sabandon", "h": "s"}, {"do": "drain", "c": 9}]
        out.append(scn("idle-%d" % k, steps, seed=seed * 100 + k))
    return out


def stream_life_scenarios(seed, quick):
    """The StreamingPull life cycle: opened on a subscription that has outstanding deliveries, two
    streams of one subscription, request side closed first, abandoned right after a delivery."""
    out = []
    for k in range(4 if quick else 12):
        steps = [call(1, op="CreateTopic", name=T1), call(1, op="CreateSub", name=S1, topic=T1, ack=10),
                 call(1, op="Publish", topic=T1, msgs=[{"p": "sl%d-%d" % (k, j)} for j in range(4)]),
                 call(2, op="Pull", sub=S1, max=2, ri=True), {"do": "advance", "ms": 500 * (k % 3)},
                 {"do": "sopen", "h": "a", "c": 3, "sub": S1, "max": 1}, {"do": "settle"},
                 {"do": "sopen", "h": "b", "c": 4, "sub": S1, "max": 5}, {"do": "settle"}, {"do": "quiet"}]
        if k % 4 == 0:
            steps += [{"do": "sclose", "h": "a"}, {"do": "settle"}]
        if k % 4 == 1:
            steps += [{"do": "sabandon", "h": "b"}]
        steps += [call(1, op="Publish", topic=T1, msgs=[{"p": "sl%d-late%d" % (k, j)} for j in range(2)]), {"do": "settle"}, {"do": "quiet"},
                  {"do": "ssend", "h": "a", "acks": [{"d": 3}]}, {"do": "settle"},
                  {"do": "advance", "ms": 10300}, {"do": "quiet"}, {"do": "advance", "ms": 10300}, {"do": "quiet"},
                  {"do": "sabandon", "h": "a"}]
        if k % 4 != 1:
            steps.append({"do": "sabandon", "h": "b"})
        steps.append({"do": "drain", "c": 9})
        out.append(scn("stream-life-%d" % k, steps, seed=seed * 100 + k, cap=(16, 1, 2)[k % 3]))
    return out


def stream_ctrl_scenarios(seed, quick):
    """Control messages of every shape on an open StreamingPull: empty (keep-alive), acks only,
    modifications only, both in one message, several in a row; after each the server comes to rest
    (`quiet`: everything sent must have been carried out) and time passes across the original and
    the extended deadlines (what was extended must not come back, what was not must)."""
    out = []
    Q = {"do": "quiet"}
    shapes = [
        ("keepalive-ack", [dict(), dict(acks=[{"d": 1}])]),
        ("keepalive-nack", [dict(), dict(), dict(mods=[[{"d": 1}, 0]])]),
        ("ack+extend", [dict(acks=[{"d": 1}], mods=[[{"d": 2}, 60]])]),
        ("ack+nack", [dict(acks=[{"d": 2}], mods=[[{"d": 1}, 0]])]),
        ("extend+ack-same", [dict(acks=[{"d": 3}], mods=[[{"d": 3}, 30], [{"d": 1}, 45]])]),
        ("extend-then-ack", [dict(mods=[[{"d": 1}, 30], [{"d": 2}, 20]]), dict(acks=[{"d": 1}]), dict()]),
        ("ack-then-keepalive-then-extend", [dict(acks=[{"d": 1}]), dict(), dict(mods=[[{"d": 2}, 25]]), dict(), dict(acks=[{"d": 3}])]),
        ("stale+live", [dict(acks=[{"lit": "77"}, {"d": 2}], mods=[[{"lit": "78"}, 30], [{"d": 1}, 30]])]),
        # one message that extends one delivery and gives another one back: the stream itself is a
        # waiting consumer and must get the returned message again
        ("extend+nack", [dict(mods=[[{"d": 1}, 30], [{"d": 2}, 0]])]),
        ("nack+extend+ack", [dict(acks=[{"d": 3}], mods=[[{"d": 2}, 0], [{"d": 1}, 45]])]),
        ("nack-all", [dict(mods=[[{"d": 1}, 0], [{"d": 2}, 0], [{"d": 3}, 0]])]),
        # one delivery named more than once in a message, the ones behind it with other seconds:
        # every delivery gets the seconds written next to ITS id
        ("repeat-then-extend", [dict(mods=[[{"d": 1}, 15], [{"d": 1}, 15], [{"d": 2}, 60]])]),
        ("repeat-then-nack", [dict(mods=[[{"d": 2}, 30], [{"d": 2}, 30], [{"d": 1}, 0], [{"d": 3}, 45]])]),
        ("repeat-acks", [dict(acks=[{"d": 1}, {"d": 1}], mods=[[{"d": 2}, 20], [{"d": 3}, 20], [{"d": 3}, 50]])]),
        # one delivery extended and then given back in the same message (and the other way round): the
        # abandoned extension must leave nothing behind that goes off later
        ("extend-then-nack-same", [dict(mods=[[{"d": 1}, 15], [{"d": 1}, 0], [{"d": 2}, 20]])]),
        ("nack-then-extend-same", [dict(mods=[[{"d": 2}, 0], [{"d": 2}, 25], [{"d": 1}, 12], [{"d": 1}, 35]])]),
    ]
    for k, (name, msgs) in enumerate(shapes):
        for cap in ((16, 1) if quick else (16, 1, 2)):
            for gap in ((0,) if quick else (0, 1, 3)):
                # the stream has been open for a while when the messages and the control messages come
                age = (0, 8000, 25000, 3000)[(k + cap) % 4]
                steps = [call(1, op="CreateTopic", name=T1), call(1, op="CreateSub", name=S1, topic=T1, ack=10),
                         {"do": "sopen", "h": "s", "c": 2, "sub": S1, "max": 10}, {"do": "settle"},
                         {"do": "advance", "ms": age},
                         call(1, op="Publish", topic=T1, msgs=[{"p": "sc%d-a" % k}, {"p": "sc%d-b" % k}, {"p": "sc%d-c" % k}]),
                         {"do": "settle"}, Q, {"do": "advance", "ms": (0, 2000, 500)[k % 3]}]
                for m in msgs:
                    step = {"do": "ssend", "h": "s"}
                    step.update(m)
                    steps.append(step)
                    if gap:
                        steps.append({"do": "yield", "n": gap})
                    else:
                        steps += [{"do": "settle"}, Q]
                steps += [{"do": "settle"}, Q,
                          # across the original deadline (10 s), then across every extension used above
                          {"do": "advance", "ms": 10300}, Q, call(3, op="Pull", sub=S1, max=10, ri=True),
                          {"do": "advance", "ms": 15000}, Q, {"do": "advance", "ms": 40000}, Q,
                          {"do": "sabandon", "h": "s"}, {"do": "drain", "c": 9}]
                out.append(scn("sctrl-%s-cap%d-g%d" % (name, cap, gap), steps, seed=seed * 100 + k, cap=cap))
    return out


def plan_c03(prop, tier, seed, t0):
    over = dict(AckRefs={1, 2}, ModSecs={0}, Advances={2}, PullMaxes={1, 2},
                OpKinds={"CreateTopic", "CreateSub", "Publish", "Pull", "PullWait", "Ack", "ModAck", "Advance"},
                MaxOps=6)
    return core_check(prop, tier, seed, t0, over, explore=[("data", 48, 2000), ("consumers", 64, 3000)], caps=(16, 1, 2),
                      extra_scenarios=lambda quick, sd: cancel_scenarios(sd, kinds={"Pull", "Ack", "ModAck", "ModAck30"}, quick=quick)
                      + stream_ctrl_scenarios(sd, quick) + twins_scenarios(sd, quick) + stream_life_scenarios(sd, quick)
                      + zero_limit_scenarios(sd, quick),
                      thorough={"mc": dict(MaxOps=7, MaxMsgs=3)})


def deadline_probe_scenarios(seed, quick, abandon=False):
    """Several deliveries whose deadlines lie close together, and a request to the subscription 1 ms
    before, at, and just after every deadline (and between them). The instants are aimed with the
    implementation's rounding rule (deadline = hand-out + D + phase); the verdict never uses them.
    abandon: the deliveries go to a StreamingPull consumer that is then abandoned without having
    acknowledged anything (C16: they are redelivered after their deadlines)."""
    out = []
    phases = (0, 1, 37, 50, 99) if quick else tuple(range(0, 100, 3))
    gaps = ((1,), (3,), (5, 1), (40,), (150, 2), (99,)) if quick else ((1,), (2,), (3,), (4,), (5,), (6,), (5, 1), (1, 1, 1), (40,), (99,), (100,), (150, 2), (998,))
    if abandon:
        phases = (0, 37) if quick else (0, 1, 37, 50, 73, 99)
        gaps = ((1,), (3,), (5, 1), (12, 7), (19,)) if quick else ((1,), (2,), (3,), (5,), (5, 1), (1, 1, 1), (12, 7), (19,), (20,), (21,), (40,), (99,))
    n = 0
    for p in phases:
        for gap in gaps:
            n += 1
            d_ms = 10000 if n % 2 else 12000
            steps = [call(1, op="CreateTopic", name=T1), call(1, op="CreateSub", name=S1, topic=T1, ack=d_ms // 1000)]
            t = 0
            dls = []
            if abandon:
                # every publish is handed to the waiting stream at once: hand-out instant = publish instant
                steps += [{"do": "sopen", "h": "s", "c": 2, "sub": S1, "max": 10}, {"do": "settle"},
                          call(1, op="Publish", topic=T1, msgs=[{"p": "d0"}]), {"do": "settle"}]
            else:
                steps += [call(1, op="Publish", topic=T1, msgs=[{"p": "d%d" % j} for j in range(len(gap) + 2)]),
                          call(2, op="Pull", sub=S1, max=1, ri=True)]
            dls.append(t + d_ms + (p + t) % 100)
            for j, g in enumerate(gap):
                steps.append({"do": "advance", "ms": g})
                t += g
                if abandon:
                    steps += [call(1, op="Publish", topic=T1, msgs=[{"p": "d%d" % (j + 1)}]), {"do": "settle"}]
                else:
                    steps.append(call(2, op="Pull", sub=S1, max=1, ri=True))
                dls.append(t + d_ms + (p + t) % 100)
            if abandon:
                steps.append({"do": "sabandon", "h": "s"})
            probes = set()
            for dl in dls:
                probes.update([dl - 1, dl, dl + 1, dl + 3])
            for a, b in zip(sorted(dls), sorted(dls)[1:]):
                if b - a >= 2:
                    probes.add((a + b) // 2)
            for at in sorted(x for x in probes if x > t):
                steps.append({"do": "advance", "ms": at - t})
                t = at
                steps.append(call(3, op="GetSub", name=S1))
            steps += [{"do": "advance", "ms": 1500}, call(3, op="GetSub", name=S1), {"do": "drain", "c": 9}]
            out.append(scn(("c16-probe-%d" if abandon else "c04-probe-%d") % n, steps, seed=seed + n, phase=p))
    return out


def plan_c04(prop, tier, seed, t0):
    over = dict(AckSecs={0, 3}, ModSecs=set(), Advances={1, 2, 3}, AckRefs={1},
                OpKinds={"CreateTopic", "CreateSub", "Publish", "Pull", "PullWait", "Ack", "Advance"},
                SubNames={S1, S2}, MaxOps=6, MaxNow=7)
    phases = tuple(range(0, 100, 7)) + (99, 1)
    return core_check(prop, tier, seed, t0, over, explore=[("data", 32, 1000)], phases=phases,
                      extra_scenarios=lambda quick, sd: deadline_probe_scenarios(sd, quick) + ack_deadline_scenarios(sd, quick)
                      + orphan_scenarios(sd, quick) + twins_scenarios(sd, quick) + idle_scenarios(sd, quick)
                      + cancel_scenarios(sd, kinds={"Pull"}, quick=quick) + zero_limit_scenarios(sd, quick),
                      adv_extra=(0, 101, 1, 99), thorough={"mc": dict(MaxOps=7, MaxMsgs=3, MaxNow=8)})


def plan_c05(prop, tier, seed, t0):
    over = dict(ModSecs={0, 1, 3}, Negatives=True, AckRefs={1, 2, 99}, Advances={1, 2}, SubNames={S1},
                OpKinds={"CreateTopic", "CreateSub", "Publish", "Pull", "ModAck", "Advance"}, MaxOps=7, MaxNow=6)

    def extra(quick, seed):
        # the 600 s cap, and huge values
        out = []
        for i, secs in enumerate([599, 600, 601, 700, 2147483647, 65535, 65536, 65566, 66135, 131072, 131102, 1000000]):
            out.append({
                "id": "c05-cap-%d" % i, "cap": 16, "seed": seed + i, "phase": (i * 23) % 100,
                "meta": {"clock": "paused", "proj": V.proj_map(), "src": "cap"},
                "steps": [
                    {"do": "call", "c": 1, "call": {"op": "CreateTopic", "name": T1}},
                    {"do": "call", "c": 1, "call": {"op": "CreateSub", "name": S1, "topic": T1, "ack": 10}},
                    {"do": "call", "c": 1, "call": {"op": "Publish", "topic": T1, "msgs": [{"p": "a"}, {"p": "b"}]}},
                    {"do": "call", "c": 1, "call": {"op": "Pull", "sub": S1, "max": 2, "ri": True}},
                    {"do": "call", "c": 1, "call": {"op": "ModAck", "sub": S1, "acks": [{"d": 1}], "secs": secs}},
                    {"do": "advance", "ms": 11000},
                    {"do": "call", "c": 1, "call": {"op": "Pull", "sub": S1, "max": 2, "ri": True}},
                    {"do": "advance", "ms": 590000},
                    {"do": "call", "c": 1, "call": {"op": "Pull", "sub": S1, "max": 2, "ri": True}},
                    {"do": "drain", "c": 9},
                ]})
        return out
    return core_check(prop, tier, seed, t0, over, explore=[("data", 32, 1000), ("consumers", 16, 1000)],
                      extra_scenarios=lambda quick, sd: extra(quick, sd) + stream_ctrl_scenarios(sd, quick)
                      + [x for x in big_batch_scenarios(sd, quick) if "ack-" not in x["id"] or "nack" in x["id"]]
                      # modifications on a subscription whose topic is gone
                      + orphan_scenarios(sd, quick),
                      thorough={"mc": dict(MaxOps=8, MaxMsgs=3, SubNames={S1, S2})})


def plan_c08(prop, tier, seed, t0):
    over = dict(SubNames={S1, S2}, ModSecs={0}, AckRefs={1}, Advances={2}, PubSizes={1, 2}, PullMaxes={1, 2},
                OpKinds={"CreateTopic", "CreateSub", "Publish", "Pull", "ModAck", "Advance"}, MaxOps=7, MaxMsgs=4)
    def extra(quick, sd):
        # large Publish requests (beyond 100 and beyond 1000 messages) next to a concurrent small
        # publisher: one request = one contiguous block of increasing ids, delivered in that order
        out = []
        for i, (n, small) in enumerate([(101, 3), (130, 2)] if quick else [(101, 3), (130, 2), (250, 3), (100, 1), (300, 5), (1001, 2)]):
            for order in (0, 1):
                a = start("big", 2, op="Publish", topic=T1, msgs=[{"p": "bulk:%d" % n}])
                b = start("small", 3, op="Publish", topic=T1, msgs=[{"p": "s%d-%d" % (i, j)} for j in range(small)])
                steps = [call(1, op="CreateTopic", name=T1), call(1, op="CreateSub", name=S1, topic=T1, ack=10),
                         call(1, op="CreateSub", name=S2, topic=T1, ack=10)]
                steps += ([a, b] if order == 0 else [b, a]) + [{"do": "waitall"}]
                steps += [call(4, op="Pull", sub=S1, max=1000, ri=True), call(4, op="Pull", sub=S1, max=1000, ri=True),
                          call(5, op="Pull", sub=S2, max=7, ri=True), call(5, op="Pull", sub=S2, max=1000, ri=True),
                          {"do": "drain", "c": 9}]
                out.append(scn("c08-big-%d-%d" % (i, order), steps, seed=sd + i, cap=(16, 1, 2)[i % 3]))
        # messages with ordering keys (in no particular key order), with and without keys mixed: the
        # request's order is the delivery order and ids[i] is the id of message i
        keysets = [["b", "", "a", "b"], ["z", "y", "x"], ["", "k", ""], ["a", "a", "b", "a"], ["2", "10", "1"]]
        for i, keys in enumerate(keysets if not quick else keysets[:3]):
            msgs = [{"p": ("key:%s:ok%d-%d" % (kk, i, j)) if kk else ("ok%d-%d" % (i, j))} for j, kk in enumerate(keys)]
            steps = [call(1, op="CreateTopic", name=T1), call(1, op="CreateSub", name=S1, topic=T1, ack=10),
                     call(1, op="CreateSub", name=S2, topic=T1, ack=10),
                     call(2, op="Publish", topic=T1, msgs=msgs), call(2, op="Publish", topic=T1, msgs=list(reversed(msgs))),
                     call(4, op="Pull", sub=S1, max=3, ri=True), call(4, op="Pull", sub=S1, max=100, ri=True),
                     {"do": "sopen", "h": "s", "c": 5, "sub": S2, "max": 100}, {"do": "settle"}, {"do": "sabandon", "h": "s"},
                     {"do": "drain", "c": 9}]
            out.append(scn("c08-keys-%d" % i, steps, seed=sd + i))
        # megabytes of payload in front of small messages (a response close to the 4 MiB client limit)
        for i in range(2):
            msgs = [{"p": "big#%d" % j} for j in range(3)] + [{"p": "tail%d-%d" % (i, j)} for j in range(4)]
            steps = [call(1, op="CreateTopic", name=T1), call(1, op="CreateSub", name=S1, topic=T1, ack=10)]
            steps += ([call(2, op="Publish", topic=T1, msgs=msgs)] if i == 0 else [call(2, op="Publish", topic=T1, msgs=[m]) for m in msgs])
            steps += [call(3, op="Pull", sub=S1, max=100, ri=True), call(3, op="Pull", sub=S1, max=100, ri=True),
                      call(3, op="Pull", sub=S1, max=100, ri=True), {"do": "drain", "c": 9}]
            out.append(scn("c08-bytes-%d" % i, steps, seed=sd + i))
        # backlogs beyond the pull cap (1000), pulls asking for more (judged on sizes, light recording)
        for i, (n, mx) in enumerate([(1200, 1100), (2500, 2000)] if quick else [(1200, 1100), (2500, 2000), (1001, 1001), (3000, 70000)]):
            steps = [call(1, op="CreateTopic", name=T1), call(1, op="CreateSub", name=S1, topic=T1, ack=10),
                     call(1, op="Publish", topic=T1, msgs=[{"p": "bulk:%d" % n}]),
                     call(2, op="Pull", sub=S1, max=mx, ri=True), call(2, op="Pull", sub=S1, max=mx, ri=True),
                     call(1, op="Publish", topic=T1, msgs=[{"p": "bulk:5"}]), call(2, op="Pull", sub=S1, max=mx, ri=True),
                     {"do": "advance", "ms": 11000}, call(2, op="Pull", sub=S1, max=mx, ri=True)]
            s2 = scn("c08-cap-%d" % i, steps, seed=sd + i)
            s2["meta"]["light"] = True
            out.append(s2)
        # publishes queued behind a DeleteTopic in the topic's mailbox still get increasing ids
        return out + inflight_topic_delete_scenarios(sd, quick)
    return core_check(prop, tier, seed, t0, over, explore=[("data", 64, 3000), ("mixed", 16, 1000), ("mt:pubrace", 300, 20000)], caps=(16, 1, 2),
                      extra_scenarios=extra, thorough={"mc": dict(MaxOps=8, MaxMsgs=5)}, turns=True)


def plan_c09(prop, tier, seed, t0):
    over = dict(TopicNames={T1, T2}, SubNames={S1}, ModSecs={0}, AckRefs={1}, Advances={2}, PullMaxes={2},
                OpKinds={"CreateTopic", "DeleteTopic", "CreateSub", "Publish", "Pull", "ModAck", "Advance"},
                MaxOps=7, MaxMsgs=3)
    def extra(quick, sd):
        # the same payload classes through the HTTP push path
        import plan_push
        # many topic incarnations and many messages per topic: the ids clients see stay unique across
        # topics (an id is more than the concatenation of two counters)
        churn = "projects/p1/topics/t4"
        steps = [call(1, op="CreateTopic", name=T1), call(1, op="CreateSub", name=S1, topic=T1, ack=10),
                 call(1, op="Publish", topic=T1, msgs=[{"p": "bulk:12"}])]
        for j in range(22 if quick else 60):
            steps += [call(2, op="CreateTopic", name=churn), call(2, op="Publish", topic=churn, msgs=[{"p": "c%d" % j}, {"p": "d%d" % j}]),
                      call(2, op="DeleteTopic", name=churn)]
            if j % 4 == 3:
                steps.append(call(1, op="Publish", topic=T1, msgs=[{"p": "bulk:11"}]))
        steps += [call(3, op="CreateTopic", name=T2), call(3, op="CreateSub", name=S2, topic=T2, ack=10),
                  call(3, op="Publish", topic=T2, msgs=[{"p": "bulk:25"}]),
                  call(4, op="Pull", sub=S1, max=1000, ri=True), call(4, op="Pull", sub=S2, max=1000, ri=True), {"do": "drain", "c": 9}]
        many = scn("c09-many-topics", steps, seed=sd)
        # one Publish of more than 1000 messages, then more publishes on the same topic: fresh ids
        bigpub = scn("c09-bigpub", [call(1, op="CreateTopic", name=T1),
                                    call(1, op="Publish", topic=T1, msgs=[{"p": "bulk:1003"}]),
                                    call(1, op="Publish", topic=T1, msgs=[{"p": "x1"}, {"p": "x2"}]),
                                    call(1, op="Publish", topic=T1, msgs=[{"p": "bulk:1000"}]),
                                    call(1, op="Publish", topic=T1, msgs=[{"p": "x3"}])], seed=sd)
        return [s for s in plan_push.c14_scenarios([], sd, quick, call, scn) if s["id"] == "c14-payloads"] \
            + inflight_topic_delete_scenarios(sd, quick) + [many, bigpub]
    return core_check(prop, tier, seed, t0, over, special=True, explore=[("mixed", 32, 1000)],
                      scen={"quick": 200, "thorough": 3000}, extra_scenarios=extra,
                      thorough={"mc": dict(MaxOps=8, MaxMsgs=4)})


def plan_c10(prop, tier, seed, t0):
    over = dict(TopicNames={T1, TP2}, SubNames={S1, SP2}, P2Names={TP2, SP2}, Reads=True, AckSecs={0, 3},
                PubSizes={1}, PullMaxes={1}, AckRefs={1}, ModSecs={0},
                OpKinds={"CreateTopic", "DeleteTopic", "CreateSub", "DeleteSub", "GetTopic", "GetSub", "Publish", "Pull", "Ack", "ModAck"},
                MaxOps=5, MaxMsgs=1)
    return core_check(prop, tier, seed, t0, over, explore=[("churn", 64, 3000), ("mt:churnrace", 300, 20000), ("mt:cdrace", 300, 20000)],
                      extra_scenarios=lambda quick, sd: inflight_delete_scenarios(sd, quick) + inflight_topic_delete_scenarios(sd, quick)
                      + empty_batch_scenarios(sd) + ack_deadline_scenarios(sd, quick) + refused_next_to_live_scenarios(sd, quick)
                      + listing_walk_scenarios(sd, quick) + prefix_project_scenarios(sd, quick),
                      thorough={"mc": dict(MaxOps=6)}, turns=True)


def plan_c11(prop, tier, seed, t0):
    over = dict(TopicNames={T1, T2}, SubNames={S1, S2}, Reads=True, WalkSizes={0}, PubSizes={1}, PullMaxes={2},
                AckRefs={1}, ModSecs=set(),
                OpKinds={"CreateTopic", "DeleteTopic", "CreateSub", "DeleteSub", "GetSub", "Publish", "Pull", "Walk"},
                MaxOps=6, MaxMsgs=2)
    return core_check(prop, tier, seed, t0, over, explore=[("churn", 64, 3000), ("mt:churnrace", 300, 20000), ("mt:cdrace", 300, 20000)],
                      extra_scenarios=lambda quick, sd: cancel_scenarios(sd, kinds={"DeleteSub", "DeleteTopic", "CreateSub"}, quick=quick)
                      + inflight_delete_scenarios(sd, quick) + inflight_topic_delete_scenarios(sd, quick)
                      + pinned_topic_scenarios(sd, quick) + orphan_scenarios(sd, quick) + listing_walk_scenarios(sd, quick) + prefix_project_scenarios(sd, quick)
                      + refused_next_to_live_scenarios(sd, quick),
                      thorough={"mc": dict(MaxOps=7)}, turns=True)


def plan_c13(prop, tier, seed, t0):
    # three names per kind in project p1 (a deletion in the middle of the creation order needs three)
    over = dict(TopicNames={T1, T2, "projects/p1/topics/t4", TP2}, SubNames={S1, S2, "projects/p1/subscriptions/s4", SP2},
                P2Names={TP2, SP2}, WalkSizes={0, 1, 2}, Negatives=True,
                OpKinds={"CreateTopic", "DeleteTopic", "CreateSub", "DeleteSub", "Walk"}, MaxOps=6, MaxMsgs=0)

    def extra(quick, seed):
        out = []
        # (260 resources in pages of 50 / 63: page boundaries at offsets whose low byte is 248..255)
        sizes = [(25, 0), (7, 3), (5, 5), (4, 5), (6, 1000), (260, 50)] if quick else \
            [(25, 0), (45, 0), (1001, 5000), (30, 7), (12, 12), (12, 13), (260, 50), (260, 63), (520, 1), (780, 20)]
        for i, (n, size) in enumerate(sizes):
            steps = []
            for k in range(n):
                steps.append({"do": "call", "c": 1, "call": {"op": "CreateTopic", "name": "projects/p1/topics/t%d" % (k + 10)}})
            steps.append({"do": "call", "c": 1, "call": {"op": "CreateTopic", "name": "projects/p2/topics/t9"}})
            for k in range(min(n, 40)):
                steps.append({"do": "call", "c": 1, "call": {"op": "CreateSub", "name": "projects/p1/subscriptions/s%d" % (k + 10),
                                                            "topic": "projects/p1/topics/t10", "ack": 10}})
            steps.append({"do": "walk", "c": 1, "kind": "topics", "arg": "projects/p1", "size": size})
            steps.append({"do": "walk", "c": 1, "kind": "subs", "arg": "projects/p1", "size": size})
            steps.append({"do": "walk", "c": 1, "kind": "topicsubs", "arg": "projects/p1/topics/t10", "size": size})
            steps.append({"do": "walk", "c": 1, "kind": "topics", "arg": "projects/p2", "size": size})
            # deletions in the middle of the creation order (first, middle, last-but-one), listing
            # after each; then the deleted names are created again (they go to the END of the order)
            m = min(n, 40)
            for victim in (0, m // 2, m - 2, 1):
                if 0 <= victim < m and m >= 3:
                    steps.append({"do": "call", "c": 1, "call": {"op": "DeleteSub", "name": "projects/p1/subscriptions/s%d" % (victim + 10)}})
                    if victim != 0:     # t10 carries the subscriptions
                        steps.append({"do": "call", "c": 1, "call": {"op": "DeleteTopic", "name": "projects/p1/topics/t%d" % (victim + 10)}})
                    steps.append({"do": "walk", "c": 1, "kind": "topics", "arg": "projects/p1", "size": size})
                    steps.append({"do": "walk", "c": 1, "kind": "subs", "arg": "projects/p1", "size": size})
                    steps.append({"do": "walk", "c": 1, "kind": "topicsubs", "arg": "projects/p1/topics/t10", "size": size})
            if m >= 3:
                # refused creates (the names exist) in between: what is created afterwards still comes last
                for victim in (2, 3, m - 1):
                    steps.append({"do": "call", "c": 1, "call": {"op": "CreateSub", "name": "projects/p1/subscriptions/s%d" % (victim + 10),
                                                                "topic": "projects/p1/topics/t10", "ack": 10}})
                    steps.append({"do": "call", "c": 1, "call": {"op": "CreateTopic", "name": "projects/p1/topics/t%d" % (victim + 10)}})
                steps.append({"do": "call", "c": 1, "call": {"op": "CreateSub", "name": "projects/p1/subscriptions/s9",
                                                            "topic": "projects/p1/topics/t10", "ack": 10}})
                steps.append({"do": "call", "c": 1, "call": {"op": "CreateTopic", "name": "projects/p1/topics/t9"}})
                steps.append({"do": "call", "c": 1, "call": {"op": "CreateTopic", "name": "projects/p1/topics/t%d" % (m // 2 + 10)}})
                # replace one resource by another (the totals are the same before and after) between two walks,
                # and delete + re-create one under its old name (it moves to the end)
                steps.append({"do": "walk", "c": 1, "kind": "topics", "arg": "projects/p1", "size": size})
                steps.append({"do": "walk", "c": 1, "kind": "subs", "arg": "projects/p1", "size": size})
                steps.append({"do": "call", "c": 1, "call": {"op": "DeleteTopic", "name": "projects/p1/topics/t12"}})
                steps.append({"do": "call", "c": 1, "call": {"op": "CreateTopic", "name": "projects/p1/topics/t8"}})
                steps.append({"do": "call", "c": 1, "call": {"op": "DeleteSub", "name": "projects/p1/subscriptions/s12"}})
                steps.append({"do": "call", "c": 1, "call": {"op": "CreateSub", "name": "projects/p1/subscriptions/s8",
                                                            "topic": "projects/p1/topics/t10", "ack": 10}})
                steps.append({"do": "walk", "c": 1, "kind": "topics", "arg": "projects/p1", "size": size})
                steps.append({"do": "walk", "c": 1, "kind": "subs", "arg": "projects/p1", "size": size})
                steps.append({"do": "walk", "c": 1, "kind": "topicsubs", "arg": "projects/p1/topics/t10", "size": size})
                steps.append({"do": "call", "c": 1, "call": {"op": "DeleteTopic", "name": "projects/p1/topics/t11"}})
                steps.append({"do": "call", "c": 1, "call": {"op": "CreateTopic", "name": "projects/p1/topics/t11"}})
                steps.append({"do": "walk", "c": 1, "kind": "topics", "arg": "projects/p1", "size": size})
                steps.append({"do": "call", "c": 1, "call": {"op": "CreateSub", "name": "projects/p1/subscriptions/s10",
                                                            "topic": "projects/p1/topics/t10", "ack": 10}})
                steps.append({"do": "walk", "c": 1, "kind": "topics", "arg": "projects/p1", "size": size})
                steps.append({"do": "walk", "c": 1, "kind": "subs", "arg": "projects/p1", "size": size})
                steps.append({"do": "walk", "c": 1, "kind": "topicsubs", "arg": "projects/p1/topics/t10", "size": size})
            proj = V.proj_map()
            for k in range(n):
                proj["projects/p1/topics/t%d" % (k + 10)] = "p1"
                proj["projects/p1/subscriptions/s%d" % (k + 10)] = "p1"
            proj["projects/p2/topics/t9"] = "p2"
            proj["projects/p1/topics/t9"] = "p1"
            proj["projects/p1/topics/t8"] = "p1"
            proj["projects/p1/subscriptions/s8"] = "p1"
            proj["projects/p1/subscriptions/s9"] = "p1"
            out.append({"id": "c13-big-%d" % i, "cap": 16, "seed": seed + i, "phase": 0,
                        "meta": {"clock": "paused", "proj": proj, "src": "big"}, "steps": steps})
        return out
    return core_check(prop, tier, seed, t0, over, extra_scenarios=lambda quick, sd: extra(quick, sd) + hostile_token_scenarios(sd) + prefix_project_scenarios(sd, quick),
                      explore=[("churn", 24, 500)], thorough={"mc": dict(MaxOps=7)})


def plan_c15(prop, tier, seed, t0):
    over = dict(SubNames={S1}, PubSizes={1, 2, 3}, PullMaxes={1, 2, 3}, ModSecs={0}, AckRefs={1}, Advances={2},
                OpKinds={"CreateTopic", "CreateSub", "Publish", "Pull", "PullWait", "ModAck", "Advance"},
                MaxOps=6, MaxMsgs=4)

    def extra(quick, seed):
        out = []
        cases = [(5, 0), (5, -1), (3, 65536), (3, 65537), (3, 65535), (1200, 999), (1200, 1000), (1200, 1001), (3, 2147483647),
                 (66000, 65535), (66000, 65536), (66000, 65537), (66000, 131072), (2500, 1000), (2500, 2000)]
        if not quick:
            cases += [(66000, 1), (66000, 2147483647), (140000, 131071), (140000, 131072), (140000, 131073),
                      (1001, 1000), (1000, 1000), (999, 1000), (65536, 65536), (65537, 65536), (65535, 65535)]
        for i, (n, mx) in enumerate(cases):
            steps = [
                {"do": "call", "c": 1, "call": {"op": "CreateTopic", "name": T1}},
                {"do": "call", "c": 1, "call": {"op": "CreateSub", "name": S1, "topic": T1, "ack": 10}},
            ]
            left = n
            b = 0
            while left > 0:
                k = min(left, 1000)
                steps.append({"do": "call", "c": 1, "call": {"op": "Publish", "topic": T1,
                                                            "msgs": [{"p": "b%d-%d" % (b, j)} for j in range(k)]}})
                left -= k
                b += 1
            steps.append({"do": "call", "c": 1, "call": {"op": "Pull", "sub": S1, "max": mx, "ri": True}})
            steps.append({"do": "call", "c": 1, "call": {"op": "Pull", "sub": S1, "max": mx, "ri": True}})
            if n <= 50:
                steps.append({"do": "drain", "c": 9})
            out.append({"id": "c15-lim-%d-%d" % (n, mx), "cap": 16, "seed": seed + i, "phase": 0,
                        "meta": {"clock": "paused", "proj": V.proj_map(), "src": "limits", "light": n > 50}, "steps": steps})
        return out
    # ... "otherwise it returns as soon as at least one message is available": the blocked-Pull
    # members of the wake-up families of C06 (the W9 big-backlog ones are in `extra` already)
    def waiting(quick, sd):
        return [s for s in c06_scenarios(6 if quick else 60, sd)
                if any(w in s["id"] for w in ("-W1-", "-W2-", "-W3-", "-W4-", "-W5-", "-W7-", "-W8-", "-W10-", "-W11-", "-W12-", "-W13-", "-W14-", "-W15-"))]
    return core_check(prop, tier, seed, t0, over, extra_scenarios=lambda quick, sd: extra(quick, sd) + waiting(quick, sd)
                      + inflight_delete_scenarios(sd, quick) + orphan_scenarios(sd, quick),
                      explore=[("data", 32, 1000), ("consumers", 16, 1000)],
                      thorough={"mc": dict(MaxOps=7, MaxMsgs=5)})


def scenario_check(prop, tier, seed, t0, scenarios, mc=None, explore=(), level_note="", extra_cov=None):
    """Checks driven by scenario families (and optionally a model-checking run of another module)."""
    quick = tier == "quick"
    work = os.path.join(V.WORK, prop)
    shutil.rmtree(work, ignore_errors=True)
    os.makedirs(work)
    build_s = V.build_harness()
    violations = []
    mcres = None
    if mc:
        mcres = mc(work, quick, violations)
    scn_path = os.path.join(work, "scenarios.ndjson")
    V.write_scenarios(scn_path, scenarios)
    chunks = 8 if quick else 16
    traces = V.dvh_replay(scn_path, os.path.join(work, "replay"), chunks)
    for (profile, nq, nt) in explore:
        n = nq if quick else nt
        traces += V.dvh_explore(profile, seed * 100000, seed * 100000 + n, os.path.join(work, "explore-" + profile.replace(":", "_")), chunks)
    results = V.validate_traces(traces, work, parallel=8 if quick else 14)
    return finish(prop, tier, seed, t0, work, mcres, scenarios, traces, results, violations, len(scenarios), build_s,
                  level_note, extra_cov=extra_cov)


def call(c, **kw):
    return {"do": "call", "c": c, "call": kw}


def start(h, c, **kw):
    return {"do": "start", "h": h, "c": c, "call": kw}


def scn(sid, steps, seed=0, cap=16, phase=0, src="family", extra_proj=None):
    proj = V.proj_map()
    if extra_proj:
        proj.update(extra_proj)
    return {"id": sid, "cap": cap, "seed": seed, "phase": phase,
            "meta": {"clock": "paused", "proj": proj, "src": src}, "steps": steps}


def c12_scenarios(n_seeds, seed):
    out = []
    for k in range(n_seeds):
        sd = seed * 1000 + k
        cap = (16, 1, 2)[k % 3]
        # (every fifth: the subscription also has a push endpoint - on which nothing listens; consumers
        # that pull from it are released by its deletion like any others)
        pre = [call(1, op="CreateTopic", name=T1),
               call(1, op="CreateSub", name=S1, topic=T1, ack=10, **({"push": "http://127.0.0.1:9/c12"} if k % 5 == 4 else {}))]
        if k % 2:
            pre.append(call(1, op="Publish", topic=T1, msgs=[{"p": "pre-%d" % k}]))
        y = {"do": "yield", "n": 1 + (k % 4)}
        # A: StreamingPull with its request side open.
        out.append(scn("c12-A-%d" % k, pre + [
            {"do": "sopen", "h": "s", "c": 2, "sub": S1, "max": 10}, {"do": "settle"},
            call(1, op="DeleteSub", name=S1), {"do": "swait", "h": "s"}], seed=sd, cap=cap))
        # B: request side closed first.
        out.append(scn("c12-B-%d" % k, pre + [
            {"do": "sopen", "h": "s", "c": 2, "sub": S1, "max": 10}, {"do": "settle"},
            {"do": "sclose", "h": "s"}, {"do": "settle"},
            call(1, op="DeleteSub", name=S1), {"do": "swait", "h": "s"}], seed=sd, cap=cap))
        # C: a blocked unary Pull.
        out.append(scn("c12-C-%d" % k, [call(1, op="CreateTopic", name=T1), call(1, op="CreateSub", name=S1, topic=T1, ack=10),
            start("p", 3, op="Pull", sub=S1, max=1, ri=False), {"do": "settle"},
            call(1, op="DeleteSub", name=S1), {"do": "wait", "h": "p"}], seed=sd, cap=cap))
        # H: the deletion under load - bursts larger than BOTH mailboxes (publishes for the topic,
        # acks / pulls for the subscription) in flight while consumers wait: they are released all
        # the same, and every racing request is answered
        if k < 12:
            burst = (3, 5, 20, 40)[k % 4]
            steps = pre + [{"do": "sopen", "h": "s", "c": 2, "sub": S1, "max": 10},
                           start("bp", 3, op="Pull", sub=S1, max=1, ri=False), {"do": "settle"}]
            for j in range(burst):
                steps.append(start("a%d" % j, 100 + j, op="Ack", sub=S1, acks=[{"lit": "%d" % (j + 1)}]))
            for j in range(burst):
                steps.append(start("pb%d" % j, 200 + j, op="Publish", topic=T1, msgs=[{"p": "h%d-%d" % (k, j)}]))
            steps.append(start("d", 1, op="DeleteSub", name=S1))
            for j in range(burst):
                steps.append(start("m%d" % j, 300 + j, op=("ModAck" if j % 2 else "Pull"), sub=S1,
                                   **(dict(acks=[{"lit": "1"}], secs=0) if j % 2 else dict(max=1, ri=True))))
            steps += [{"do": "swait", "h": "s"}, {"do": "wait", "h": "bp"}, {"do": "waitall"},
                      call(9, op="GetSub", name=S1), call(9, op="ListTopicSubs", topic=T1, size=0, token="")]
            out.append(scn("c12-H-%d" % k, steps, seed=sd, cap=(1, 2, 16)[(k // 4) % 3]))
        # I: the subscription has outlived its topic when it is deleted: its consumers are released all the same
        if k < 8:
            steps = pre + [{"do": "sopen", "h": "s", "c": 2, "sub": S1, "max": 10},
                           start("bp", 3, op="Pull", sub=S1, max=1, ri=False), {"do": "settle"},
                           call(1, op="DeleteTopic", name=T1), {"do": "advance", "ms": 40 * (k % 3)}]
            if k % 4 == 1:
                steps.append(call(1, op="CreateTopic", name=T1))
            steps += [call(1, op="DeleteSub", name=S1), {"do": "swait", "h": "s"}, {"do": "wait", "h": "bp"},
                      call(1, op="GetSub", name=S1)]
            out.append(scn("c12-I-%d" % k, steps, seed=sd, cap=cap))
        # D: requests in flight while the deletion is processed.
        out.append(scn("c12-D-%d" % k, pre + [
            call(4, op="Pull", sub=S1, max=1, ri=True),
            start("a", 5, op="Ack", sub=S1, acks=[{"d": 1}]), y,
            start("d", 1, op="DeleteSub", name=S1),
            start("m", 6, op="ModAck", sub=S1, acks=[{"d": 1}], secs=30),
            start("p", 7, op="Pull", sub=S1, max=1, ri=True), y,
            start("g", 8, op="GetSub", name=S1),
            {"do": "waitall"}], seed=sd, cap=cap))
        # E: stream + blocked pull + publish racing with the deletion.
        out.append(scn("c12-E-%d" % k, pre + [
            {"do": "sopen", "h": "s", "c": 2, "sub": S1, "max": 1},
            start("p", 3, op="Pull", sub=S1, max=1, ri=False), {"do": "settle"},
            start("pub", 4, op="Publish", topic=T1, msgs=[{"p": "late-%d" % k}]), y,
            start("d", 1, op="DeleteSub", name=S1),
            {"do": "wait", "h": "d"}, {"do": "wait", "h": "pub"}, {"do": "wait", "h": "p"}, {"do": "swait", "h": "s"}],
            seed=sd, cap=cap))
        # G: the topic is deleted at the same time as the subscription (both orders)
        for order in (0, 1):
            if k >= 8 and (k + order) % 2:
                continue
            a = start("dt", 6, op="DeleteTopic", name=T1)
            b = start("d", 1, op="DeleteSub", name=S1)
            out.append(scn("c12-G-%d-%d" % (k, order), pre + [
                {"do": "sopen", "h": "s", "c": 2, "sub": S1, "max": 10},
                start("p", 3, op="Pull", sub=S1, max=1, ri=False), {"do": "settle"}] + ([a, b] if order == 0 else [b, a]) + [
                {"do": "wait", "h": "d"}, {"do": "wait", "h": "dt"}, {"do": "settle"},
                {"do": "wait", "h": "p"}, {"do": "swait", "h": "s"},
                call(5, op="DeleteSub", name=S1), call(5, op="GetSub", name=S1)], seed=sd, cap=cap))
        # F: the client that asked for the deletion walks away while it is being processed.
        for polls, yields in ((1, 0), (1, 1), (2, 1)):
            if k >= 6 and k % 3 != polls + yields - 1:
                continue
            out.append(scn("c12-F-%d-p%dy%d" % (k, polls, yields), pre + [
                {"do": "sopen", "h": "s", "c": 2, "sub": S1, "max": 10},
                start("p", 3, op="Pull", sub=S1, max=1, ri=False), {"do": "settle"},
                {"do": "polldrop", "c": 1, "call": dict(op="DeleteSub", name=S1), "polls": polls, "yields": yields},
                {"do": "settle"},
                call(5, op="GetSub", name=S1),
                {"do": "wait", "h": "p"}, {"do": "swait", "h": "s"}], seed=sd, cap=cap))
    return out


def token_of(offset):
    import base64
    import struct
    return base64.b64encode(struct.pack("<Q", offset)).decode()


HOSTILE_OFFSETS = [0, 1, 2, 3, 19, 20, 21, 1000, 1001, 2 ** 31 - 1, 2 ** 31, 2 ** 32, 2 ** 40, 2 ** 63 - 1, 2 ** 63,
                   2 ** 64 - 1001, 2 ** 64 - 1000, 2 ** 64 - 21, 2 ** 64 - 20, 2 ** 64 - 19, 2 ** 64 - 2, 2 ** 64 - 1]


def hostile_token_scenarios(seed):
    """Decodable page tokens the server never issued (offsets up to the top of the 64-bit range), with
    several page sizes, on all three list calls; the resources must keep working afterwards."""
    out = []
    for i, size in enumerate((0, 1, 2, 1000, 2147483647)):
        steps = [call(1, op="CreateTopic", name=T1), call(1, op="CreateTopic", name=T2),
                 call(1, op="CreateSub", name=S1, topic=T1, ack=10), call(1, op="CreateSub", name=S2, topic=T1, ack=10)]
        for off in HOSTILE_OFFSETS:
            tokn = token_of(off)
            steps.append(call(2, op="ListTopicSubs", topic=T1, size=size, token=tokn))
            steps.append(call(2, op="ListTopics", project="projects/p1", size=size, token=tokn))
            steps.append(call(2, op="ListSubs", project="projects/p1", size=size, token=tokn))
        steps += [{"do": "walk", "c": 2, "kind": "topicsubs", "arg": T1, "size": 1},
                  call(3, op="Publish", topic=T1, msgs=[{"p": "alive"}]), call(3, op="Pull", sub=S1, max=1, ri=True),
                  {"do": "drain", "c": 9}]
        s = scn("hostile-tokens-%d" % i, steps, seed=seed + i)
        s["meta"]["inputs"] = True
        out.append(s)
    return out


def inflight_delete_scenarios(seed, quick):
    """A DeleteSubscription is held in flight (the topic actor is gated, so the subscription waits for
    its answer) while other requests for the same name complete; then everything is released."""
    out = []
    for k in range(6 if quick else 40):
        cap = (16, 1, 2)[k % 3]
        steps = [call(1, op="CreateTopic", name=T1), call(1, op="CreateSub", name=S1, topic=T1, ack=10),
                 call(1, op="CreateSub", name=S2, topic=T1, ack=10),
                 call(1, op="Publish", topic=T1, msgs=[{"p": "x%d" % k}]),
                 {"do": "sopen", "h": "s", "c": 7, "sub": S1, "max": 10}, {"do": "settle"},
                 {"do": "gate", "name": "t.turn", "turns": 0},
                 start("d", 2, op="DeleteSub", name=S1), {"do": "yield", "n": 3 + k % 4}]
        mid = [call(3, op="GetSub", name=S1), call(3, op="CreateSub", name=S1, topic=T1, ack=10),
               call(3, op="Pull", sub=S1, max=1, ri=True), call(3, op="Ack", sub=S1, acks=[{"lit": "1"}]),
               call(3, op="ListSubs", project="projects/p1", size=0, token=""),
               start("d2", 4, op="DeleteSub", name=S1), {"do": "yield", "n": 2}]
        steps += mid[k % 3:] + mid[:k % 3]
        # a consumer that starts waiting while the deletion is in flight: released with an error
        # status when the deletion completes, never answered with an empty OK before its wait limit
        steps += [start("bp", 8, op="Pull", sub=S1, max=1, ri=False), {"do": "settle"}]
        steps += [{"do": "gate", "name": "t.turn", "turns": -1}, {"do": "wait", "h": "d"}, {"do": "wait", "h": "d2"},
                  {"do": "wait", "h": "bp"},
                  {"do": "swait", "h": "s"},
                  call(5, op="GetSub", name=S1), call(5, op="CreateSub", name=S1, topic=T1, ack=10),
                  call(5, op="ListTopicSubs", topic=T1, size=0, token=""),
                  call(5, op="Publish", topic=T1, msgs=[{"p": "y%d" % k}]), {"do": "drain", "c": 9}]
        out.append(scn("inflight-del-%d" % k, steps, seed=seed * 100 + k, cap=cap))
    return out


def pinned_topic_scenarios(seed, quick):
    """DeleteTopic (and re-creation under the same name) while consumers wait on the topic's
    subscriptions: the subscriptions report their topic as deleted at once and stay detached."""
    out = []
    for k in range(4 if quick else 16):
        consumer = [start("p", 3, op="Pull", sub=S1, max=1, ri=False)] if k % 2 == 0 else \
            [{"do": "sopen", "h": "s", "c": 3, "sub": S1, "max": 5}]
        if k % 4 >= 2:
            consumer.append(start("p2", 4, op="Pull", sub=S2, max=1, ri=False))
        steps = [call(1, op="CreateTopic", name=T1), call(1, op="CreateSub", name=S1, topic=T1, ack=10),
                 call(1, op="CreateSub", name=S2, topic=T1, ack=10)] + consumer + [
                 {"do": "settle"}, {"do": "advance", "ms": 300 * (k % 3)},
                 call(2, op="DeleteTopic", name=T1),
                 call(2, op="GetSub", name=S1), call(2, op="GetSub", name=S2),
                 call(2, op="ListSubs", project="projects/p1", size=0, token=""),
                 call(2, op="CreateTopic", name=T1),
                 call(2, op="GetSub", name=S1), call(2, op="ListSubs", project="projects/p1", size=0, token=""),
                 call(2, op="ListTopicSubs", topic=T1, size=0, token=""),
                 call(2, op="Publish", topic=T1, msgs=[{"p": "pin%d" % k}]), {"do": "settle"}, {"do": "quiet"},
                 call(2, op="DeleteSub", name=S1), call(2, op="DeleteSub", name=S2), {"do": "waitall"}]
        if k % 2:
            steps.append({"do": "swait", "h": "s"})
        steps.append({"do": "drain", "c": 9})
        out.append(scn("pinned-topic-%d" % k, steps, seed=seed * 100 + k, cap=(16, 1, 2)[k % 3]))
    return out


def inflight_topic_delete_scenarios(seed, quick):
    """A DeleteTopic is held at the head of the topic actor's turn (the actor is gated) while requests
    that looked the topic up BEFORE the deletion queue up behind it: a publish, a DeleteSubscription
    of one of its subscriptions (whose remove request reaches the deleted topic), a CreateSubscription
    (whose attach does), a listing.  Then everything is released and probed."""
    out = []
    S3 = "projects/p1/subscriptions/s3"
    for k in range(8 if quick else 48):
        cap = (16, 1, 2)[k % 3]
        steps = [call(1, op="CreateTopic", name=T1), call(1, op="CreateSub", name=S1, topic=T1, ack=10),
                 call(1, op="CreateSub", name=S2, topic=T1, ack=10),
                 call(1, op="Publish", topic=T1, msgs=[{"p": "a%d" % k}, {"p": "b%d" % k}])]
        if k % 2:
            steps.append(call(1, op="Pull", sub=S1, max=1, ri=True))
        steps += [{"do": "gate", "name": "t.turn", "turns": 0}, start("dt", 2, op="DeleteTopic", name=T1), {"do": "settle"}]
        mid = [start("pb", 3, op="Publish", topic=T1, msgs=[{"p": "late%d-1" % k}, {"p": "late%d-2" % k}]),
               start("ds", 4, op="DeleteSub", name=S1),
               start("cs", 5, op="CreateSub", name=S3, topic=T1, ack=10),
               start("ls", 6, op="ListTopicSubs", topic=T1, size=0, token=""),
               start("pb2", 7, op="Publish", topic=T1, msgs=[{"p": "later%d" % k}])]
        combos = [[1], [0], [2], [3], [1, 0], [2, 1], [0, 3, 1], [0, 1, 2, 3, 4], [4, 1], [3, 2], [1, 2, 3], [2, 0, 4]]
        chosen = [mid[j] for j in combos[k % len(combos)]]
        for m in chosen:
            steps += [m, {"do": "yield", "n": 1 + k % 3}]
        steps += [{"do": "settle"}, {"do": "gate", "name": "t.turn", "turns": -1}, {"do": "waitall"},
                  call(8, op="GetSub", name=S1), call(8, op="GetSub", name=S2), call(8, op="GetSub", name=S3),
                  call(8, op="ListSubs", project="projects/p1", size=0, token=""),
                  call(8, op="DeleteSub", name=S1),
                  call(8, op="Pull", sub=S2, max=10, ri=True),
                  call(8, op="CreateTopic", name=T1), call(8, op="CreateSub", name=S1, topic=T1, ack=10),
                  call(8, op="Publish", topic=T1, msgs=[{"p": "new%d" % k}]),
                  call(8, op="ListTopicSubs", topic=T1, size=0, token=""),
                  call(8, op="Pull", sub=S1, max=10, ri=True), call(8, op="Pull", sub=S2, max=10, ri=True),
                  {"do": "drain", "c": 9}]
        out.append(scn("inflight-tdel-%d" % k, steps, seed=seed * 100 + k, cap=cap))
    return out


def cancel_scenarios(seed, kinds=None, quick=True):
    """Every request kind x (polls before the drop) x (scheduler turns between polls) x
    (target mailbox empty / saturated), followed by probes and a drain."""
    out = []
    calls = {
        "Pull": dict(op="Pull", sub=S1, max=1, ri=True),
        "Ack": dict(op="Ack", sub=S1, acks=[{"d": 1}]),
        "ModAck": dict(op="ModAck", sub=S1, acks=[{"d": 1}], secs=0),
        "ModAck30": dict(op="ModAck", sub=S1, acks=[{"d": 1}], secs=30),
        "Publish": dict(op="Publish", topic=T1, msgs=[{"p": "x1"}, {"p": "x2"}]),
        "PublishBig": dict(op="Publish", topic=T1, msgs=[{"p": "bulk:600"}]),
        "CreateSub": dict(op="CreateSub", name=S2, topic=T1, ack=10),
        "CreateSubPush": dict(op="CreateSub", name=S2, topic=T1, ack=10, push="http://127.0.0.1:9/x"),
        "DeleteSub": dict(op="DeleteSub", name=S1),
        "DeleteTopic": dict(op="DeleteTopic", name=T1),
        "GetSub": dict(op="GetSub", name=S1),
        "ListTopicSubs": dict(op="ListTopicSubs", topic=T1, size=0, token=""),
    }
    # which actor a request kind goes through first
    target = {"Pull": "sub", "Ack": "sub", "ModAck": "sub", "ModAck30": "sub", "GetSub": "sub", "DeleteSub": "sub",
              "Publish": "topic", "PublishBig": "topic", "CreateSub": "topic", "CreateSubPush": "topic", "DeleteTopic": "topic", "ListTopicSubs": "topic"}
    n = 0
    for kind, callspec in calls.items():
        if kinds and kind not in kinds:
            continue
        for polls in (1, 2, 3):
            for yields in (0, 1, 3):
                for sat in (False, True):
                    for cap in ((1, 2) if sat else (16, 1)):
                        if quick and (polls, yields) not in ((1, 0), (1, 1), (2, 1), (3, 3)):
                            continue
                        n += 1
                        steps = [call(1, op="CreateTopic", name=T1), call(1, op="CreateSub", name=S1, topic=T1, ack=10),
                                 call(1, op="Publish", topic=T1, msgs=[{"p": "a"}, {"p": "b"}]),
                                 call(2, op="Pull", sub=S1, max=1, ri=True)]
                        if sat:
                            # saturate the mailbox the request goes to: cap requests in the box, one parked
                            # (for DeleteSub every other time the TOPIC's: its second step goes there)
                            for j in range(cap + 1):
                                if target[kind] == "sub" and not (kind == "DeleteSub" and (polls + yields) % 2 == 0):
                                    steps.append({"do": "hold", "h": "f%d" % j, "c": 20 + j, "call": dict(op="GetSub", name=S1)})
                                else:
                                    steps.append({"do": "hold", "h": "f%d" % j, "c": 20 + j,
                                                  "call": dict(op="ListTopicSubs", topic=T1, size=0, token="")})
                        steps.append({"do": "polldrop", "c": 3, "call": callspec, "polls": polls, "yields": yields})
                        steps += [{"do": "release"}, {"do": "settle"},
                                  # probes: is anything wedged, half-created or lost?
                                  call(4, op="ListTopicSubs", topic=T1, size=0, token=""),
                                  call(4, op="GetSub", name=S1), call(4, op="GetSub", name=S2),
                                  call(4, op="Publish", topic=T1, msgs=[{"p": "probe"}]),
                                  call(4, op="Pull", sub=S1, max=10, ri=True),
                                  call(4, op="Pull", sub=S2, max=10, ri=True), {"do": "quiet"},
                                  # ... and everything can still be deleted and created again
                                  call(4, op="DeleteSub", name=S1), call(4, op="DeleteSub", name=S2),
                                  call(4, op="GetSub", name=S1), call(4, op="DeleteTopic", name=T1),
                                  call(4, op="CreateTopic", name=T1), call(4, op="CreateSub", name=S1, topic=T1, ack=10),
                                  call(4, op="Publish", topic=T1, msgs=[{"p": "probe2"}]),
                                  call(4, op="Pull", sub=S1, max=10, ri=True),
                                  {"do": "drain", "c": 9}]
                        out.append(scn("cx-%s-p%d-y%d-%s-cap%d" % (kind, polls, yields, "sat" if sat else "free", cap), steps,
                                       seed=seed * 1000 + n, cap=cap))
    # DeleteSubscription abandoned after it reached the subscription's actor, while the TOPIC's mailbox
    # is full and its actor does not move (gated): the second step of the deletion (the remove request
    # to the topic) cannot be sent yet when the caller goes away
    if not kinds or "DeleteSub" in kinds:
        for cap in (1, 2):
            for yields in ((2, 5) if quick else (1, 2, 3, 5, 8)):
                n += 1
                steps = [call(1, op="CreateTopic", name=T1), call(1, op="CreateSub", name=S1, topic=T1, ack=10),
                         call(1, op="CreateSub", name=S2, topic=T1, ack=10),
                         call(1, op="Publish", topic=T1, msgs=[{"p": "a"}, {"p": "b"}]),
                         {"do": "gate", "name": "t.turn", "turns": 0}]
                for j in range(cap + 1):
                    steps.append({"do": "hold", "h": "f%d" % j, "c": 20 + j, "call": dict(op="ListTopicSubs", topic=T1, size=0, token="")})
                steps += [{"do": "polldrop", "c": 3, "call": calls["DeleteSub"], "polls": 1, "yields": yields},
                          {"do": "gate", "name": "t.turn", "turns": -1}, {"do": "release"}, {"do": "settle"}, {"do": "quiet"},
                          call(4, op="ListTopicSubs", topic=T1, size=0, token=""), call(4, op="GetSub", name=S1),
                          call(4, op="Publish", topic=T1, msgs=[{"p": "probe"}]), call(4, op="Pull", sub=S2, max=10, ri=True), {"do": "quiet"},
                          call(4, op="DeleteSub", name=S1), call(4, op="CreateSub", name=S1, topic=T1, ack=10),
                          call(4, op="Publish", topic=T1, msgs=[{"p": "probe2"}]), call(4, op="Pull", sub=S1, max=10, ri=True),
                          {"do": "drain", "c": 9}]
                out.append(scn("cx-DeleteSub-topicgated-y%d-cap%d" % (yields, cap), steps, seed=seed * 1000 + n, cap=cap))
    return out


def c07_scenarios(n_seeds, seed):
    """Bursts larger than a mailbox combined with publish and delete, all in flight at once."""
    out = []
    for k in range(n_seeds):
        sd = seed * 1000 + k
        cap = (16, 1, 2, 16)[k % 4]
        burst = (cap + 1, cap + 2, 2 * cap + 3, 40)[(k // 4) % 4]
        pre = [call(1, op="CreateTopic", name=T1), call(1, op="CreateSub", name=S1, topic=T1, ack=10),
               call(1, op="CreateSub", name=S2, topic=T1, ack=10),
               call(1, op="Publish", topic=T1, msgs=[{"p": "a%d" % k}, {"p": "b%d" % k}])]
        kinds = [dict(op="Pull", sub=S1, max=1, ri=True), dict(op="Ack", sub=S1, acks=[{"d": 1}]),
                 dict(op="ModAck", sub=S1, acks=[{"d": 1}], secs=0), dict(op="GetSub", name=S1)]
        # A: delete the subscription with a burst queued behind it, and publish.
        steps = list(pre)
        order = k % 3
        if order == 0:
            steps.append(start("d", 2, op="DeleteSub", name=S1))
        for j in range(burst):
            steps.append(start("q%d" % j, 10 + j, **kinds[(j + k) % len(kinds)]))
            if order == 1 and j == burst // 2:
                steps.append(start("d", 2, op="DeleteSub", name=S1))
        if order == 2:
            steps.append(start("d", 2, op="DeleteSub", name=S1))
        steps.append(start("pub", 3, op="Publish", topic=T1, msgs=[{"p": "late%d" % k}]))
        steps.append(start("pub2", 4, op="Publish", topic=T1, msgs=[{"p": "later%d" % k}]))
        steps += [{"do": "waitall"},
                  call(5, op="Publish", topic=T1, msgs=[{"p": "after%d" % k}]),
                  call(5, op="ListTopicSubs", topic=T1, size=0, token=""),
                  {"do": "drain", "c": 9}]
        out.append(scn("c07-A-%d" % k, steps, seed=sd, cap=cap))
        # B: the same with the topic deleted in the middle.
        steps = list(pre)
        for j in range(burst):
            steps.append(start("q%d" % j, 10 + j, **kinds[(j + k) % len(kinds)]))
        steps.append(start("pub", 3, op="Publish", topic=T1, msgs=[{"p": "late%d" % k}]))
        steps.append(start("td", 2, op="DeleteTopic", name=T1))
        steps.append(start("d", 6, op="DeleteSub", name=S1))
        for j in range(burst):
            steps.append(start("l%d" % j, 60 + j, op="ListTopicSubs", topic=T1, size=0, token=""))
        steps += [{"do": "waitall"}, call(5, op="GetSub", name=S2), {"do": "drain", "c": 9}]
        out.append(scn("c07-B-%d" % k, steps, seed=sd, cap=cap))
        # D: requests whose senders were GRANTED a place in the mailbox (a slot was freed for them)
        # but have not put the request in yet when the actor exits: held library-level calls are
        # exactly that (polled once, not polled again until `release`).  Every one of them must
        # still be answered (by "closed"), and so must the delete(s).
        if k < 12:
            dcap = (1, 2)[k % 2]
            nheld = 1 + (k // 2) % 3
            hkinds = [dict(op="GetSub", name=S1), dict(op="DeleteSub", name=S1), dict(op="Pull", sub=S1, max=1, ri=True),
                      dict(op="Ack", sub=S1, acks=[{"lit": "1"}])]
            steps = [call(1, op="CreateTopic", name=T1), call(1, op="CreateSub", name=S1, topic=T1, ack=10),
                     {"do": "gate", "name": "s.turn", "turns": 0}]
            # the delete first, then fill the mailbox
            steps.append(start("d", 2, op="DeleteSub", name=S1))
            steps.append({"do": "settle"})
            # (the gated actor has taken the delete out of the mailbox already)
            for j in range(dcap):
                steps.append({"do": "hold", "h": "f%d" % j, "c": 20 + j, "call": dict(op="GetSub", name=S1)})
            # these wait for room; they are granted a slot as the actor drains, but stay unpolled
            for j in range(nheld):
                steps.append({"do": "hold", "h": "g%d" % j, "c": 30 + j, "call": hkinds[(j + k // 6) % len(hkinds)]})
            if k % 3 == 2:
                steps.append(start("d2", 3, op="DeleteSub", name=S1))
            steps += [{"do": "gate", "name": "s.turn", "turns": -1}, {"do": "settle"}, {"do": "yield", "n": 20},
                      {"do": "wait", "h": "d"}, {"do": "release"}, {"do": "waitall"},
                      call(5, op="GetSub", name=S1), call(5, op="ListTopicSubs", topic=T1, size=0, token=""),
                      {"do": "drain", "c": 9}]
            out.append(scn("c07-D-%d" % k, steps, seed=sd, cap=dcap))
        # C: a blocking Pull that is woken with nothing to take (an empty publish, a competing
        # consumer) must still answer by its wait limit
        if k < 6:
            steps = [call(1, op="CreateTopic", name=T1), call(1, op="CreateSub", name=S1, topic=T1, ack=10),
                     start("p", 3, op="Pull", sub=S1, max=1, ri=False), {"do": "settle"}]
            for j in range(4):
                steps.append({"do": "advance", "ms": 90000 + 7000 * k})
                if (j + k) % 2 == 0:
                    steps.append(call(2, op="Publish", topic=T1, msgs=[]))
                else:
                    steps += [call(2, op="ModAck", sub=S1, acks=[{"lit": "7"}], secs=0), call(2, op="Publish", topic=T1, msgs=[])]
            steps += [{"do": "wait", "h": "p"}, {"do": "drain", "c": 9}]
            out.append(scn("c07-C-%d" % k, steps, seed=sd, cap=cap))
    return out



def liveness_mc(prop, work, name, procs, props, pinned, violations, total, runs, cap=1, backlog=0, cancel=(), workers=8):
    """DeltioActors under LiveSpec (per-component weak fairness): the temporal properties must hold
    for the repaired design and each `pinned` switch setting must violate them (vacuity control)."""
    r = V.actors_mc(os.path.join(work, "mc"), name, procs, cap=cap, backlog=backlog, allow_cancel=cancel,
                    invariants=["TypeOK"], properties=props, spec="LiveSpec", workers=workers)
    if r["stats"]:
        total["generated"] += r["stats"]["generated"]
        total["distinct"] += r["stats"]["distinct"]
    runs.append({"config": name, "liveness": props, "stats": r["stats"], "error": r["error"]})
    if r["error"]:
        path = V.save_replay(prop, 0, {"kind": "model", "error": r["error"], "config": r["config"], "trace": r["trace"],
                                       "tlc_output_tail": r["out"][-5000:]})
        violations.append(("model DeltioActors (liveness): " + r["error"], path))
    for sw in pinned:
        m = V.actors_mc(os.path.join(work, "mc"), name + "_pinned", procs, cap=cap, backlog=backlog, allow_cancel=cancel,
                        switches=sw, properties=props, spec="LiveSpec", workers=workers)
        if not m["error"]:
            raise V.ToolError("vacuity: the model with %s satisfies %s under LiveSpec" % (sw, props))


def c07_mc(work, quick, violations):
    """All interleavings of a delete, a publish and CAP+1 further requests: the repaired design
    must be free of hangs; the pinned design (delete does not drain) must show the deadlock."""
    procs = {"d": ("delete", "s1"), "pub": ("publish", "s1"), "q1": ("pull", "s1"), "q2": ("ack", "s1"), "q3": ("nack", "s1")}
    if not quick:
        procs["q4"] = ("pull", "s1")
        procs["pub2"] = ("publish", "s1")
    total = {"generated": 0, "distinct": 0}
    runs = []
    for cap in ((1, 2) if quick else (1, 2, 3)):
        r = V.actors_mc(os.path.join(work, "mc"), "c07_cap%d" % cap, procs, cap=cap, backlog=1,
                        invariants=["TypeOK", "C07_NoHang", "C07_ActorsIdle", "C16_Attached"])
        if r["stats"]:
            total["generated"] += r["stats"]["generated"]
            total["distinct"] += r["stats"]["distinct"]
        runs.append({"cap": cap, "stats": r["stats"], "error": r["error"]})
        if r["error"]:
            path = V.save_replay("C07", 0, {"kind": "model", "error": r["error"], "config": r["config"], "trace": r["trace"],
                                            "tlc_output_tail": r["out"][-5000:]})
            violations.append(("model DeltioActors: " + r["error"], path))
    # vacuity control: the pinned behaviour must be rejected by the same invariants
    pinned = V.actors_mc(os.path.join(work, "mc"), "c07_pinned", procs, cap=2, backlog=1,
                         switches={"DeleteDrainsMailbox": False}, invariants=["C07_NoHang"])
    if not pinned["error"]:
        raise V.ToolError("vacuity: the model with DeleteDrainsMailbox=FALSE does not show the C07 deadlock")
    # requests whose senders were granted a mailbox permit before the actor exits: the repaired
    # design (close + drain on exit) answers them, the pinned one leaves their callers hanging
    gprocs = {"d": ("delete", "s1"), "d2": ("delete", "s1"), "q1": ("pull", "s1"), "pub": ("publish", "s1")}
    if not quick:
        gprocs["q2"] = ("ack", "s1")
    for cap in (1, 2):
        r = V.actors_mc(os.path.join(work, "mc"), "c07_granted%d" % cap, gprocs, cap=cap, backlog=1,
                        invariants=["TypeOK", "C07_NoHang", "C07_ActorsIdle"], properties=["C10_DeleteAnswered"])
        if r["stats"]:
            total["generated"] += r["stats"]["generated"]
            total["distinct"] += r["stats"]["distinct"]
        runs.append({"cap": cap, "config": "granted", "stats": r["stats"], "error": r["error"]})
        if r["error"]:
            path = V.save_replay("C07", 0, {"kind": "model", "error": r["error"], "config": r["config"], "trace": r["trace"],
                                            "tlc_output_tail": r["out"][-5000:]})
            violations.append(("model DeltioActors: " + r["error"], path))
    pinned2 = V.actors_mc(os.path.join(work, "mc"), "c07_pinned_exit", gprocs, cap=1, backlog=1,
                          switches={"ExitDrainsGranted": False}, invariants=["C07_NoHang"])
    if not pinned2["error"]:
        raise V.ToolError("vacuity: the model with ExitDrainsGranted=FALSE does not show the lost request")
    # liveness: every request that was sent is eventually answered (no livelock either)
    lprocs = {"d": ("delete", "s1"), "pub": ("publish", "s1"), "q1": ("pull", "s1"), "q2": ("ack", "s1"), "q3": ("nack", "s1")}
    if not quick:
        lprocs["d2"] = ("delete", "s1")
    liveness_mc("C07", work, "c07_live", lprocs, ["C07_Answered"], [{"DeleteDrainsMailbox": False}, {"ExitDrainsGranted": False}],
                violations, total, runs, cap=1, backlog=1)
    return {"stats": total, "runs": runs, "pinned_counterexample_steps": len(pinned["trace"]),
            "pinned_exit_counterexample_steps": len(pinned2["trace"])}


def plan_c07(prop, tier, seed, t0):
    n = 24 if tier == "quick" else 400
    return scenario_check(prop, tier, seed, t0, c07_scenarios(n, seed) + stream_ctrl_scenarios(seed, tier == "quick")
                          + cancel_scenarios(seed, kinds={"DeleteSub", "DeleteTopic", "CreateSub"}, quick=tier == "quick")
                          + inflight_topic_delete_scenarios(seed, tier == "quick") + inflight_delete_scenarios(seed, tier == "quick"), mc=c07_mc,
                          explore=[("mixed", 48, 2000), ("churn", 24, 1000), ("consumers", 24, 1000)])


RELEVANT["C07"] = {"s.del0", "t.accept"}


def c06_scenarios(n_seeds, seed):
    out = []
    Q = {"do": "quiet"}
    for k in range(n_seeds):
        sd = seed * 1000 + k
        cap = (16, 1, 2)[k % 3]
        y = {"do": "yield", "n": k % 7}
        pre = [call(1, op="CreateTopic", name=T1), call(1, op="CreateSub", name=S1, topic=T1, ack=10)]
        # W1: the availability event races with the consumer's check-then-wait step
        out.append(scn("c06-W1-%d" % k, pre + [
            start("p", 3, op="Pull", sub=S1, max=1, ri=False), y,
            call(2, op="Publish", topic=T1, msgs=[{"p": "w1-%d" % k}]), Q,
            {"do": "wait", "h": "p"}, Q, {"do": "drain", "c": 9}], seed=sd, cap=cap))
        # W2: several waiting consumers, several messages
        out.append(scn("c06-W2-%d" % k, pre + [
            start("p1", 3, op="Pull", sub=S1, max=1, ri=False), start("p2", 4, op="Pull", sub=S1, max=1, ri=False),
            {"do": "sopen", "h": "s", "c": 5, "sub": S1, "max": 1}, y,
            call(2, op="Publish", topic=T1, msgs=[{"p": "w2-%d-%d" % (k, j)} for j in range(3)]), Q,
            {"do": "wait", "h": "p1"}, {"do": "wait", "h": "p2"}, Q, {"do": "sabandon", "h": "s"},
            {"do": "drain", "c": 9}], seed=sd, cap=cap))
        # W3: a nack makes the message available again
        out.append(scn("c06-W3-%d" % k, pre + [
            call(2, op="Publish", topic=T1, msgs=[{"p": "w3-%d" % k}]),
            call(2, op="Pull", sub=S1, max=1, ri=True),
            start("p", 3, op="Pull", sub=S1, max=1, ri=False), y,
            call(2, op="ModAck", sub=S1, acks=[{"d": 1}], secs=0), Q,
            {"do": "wait", "h": "p"}, Q, {"do": "drain", "c": 9}], seed=sd, cap=cap))
        # W4: deadline expiry makes it available again
        out.append(scn("c06-W4-%d" % k, pre + [
            call(2, op="Publish", topic=T1, msgs=[{"p": "w4-%d" % k}]),
            call(2, op="Pull", sub=S1, max=1, ri=True),
            {"do": "sopen", "h": "s", "c": 5, "sub": S1, "max": 10}, {"do": "settle"},
            {"do": "advance", "ms": 10200}, Q, {"do": "advance", "ms": 200}, Q,
            {"do": "sabandon", "h": "s"}, {"do": "drain", "c": 9}], seed=sd, cap=cap))
        # W5: a waiting consumer goes away; the next one must still be woken
        out.append(scn("c06-W5-%d" % k, pre + [
            start("p1", 3, op="Pull", sub=S1, max=1, ri=False), start("p2", 4, op="Pull", sub=S1, max=1, ri=False),
            {"do": "settle"}, {"do": "abort", "h": "p1"}, y,
            call(2, op="Publish", topic=T1, msgs=[{"p": "w5-%d" % k}]), Q,
            {"do": "wait", "h": "p2"}, Q, {"do": "drain", "c": 9}], seed=sd, cap=cap))
        # W8: the woken consumer's pull request reaches the mailbox, then the consumer goes away
        # before the actor gets to it (the request is still served; nobody may be left asleep
        # with a message in the backlog)
        out.append(scn("c06-W8-%d" % k, pre + [
            start("p1", 3, op="Pull", sub=S1, max=1, ri=False), {"do": "settle"},
            start("p2", 4, op="Pull", sub=S1, max=1, ri=False), {"do": "settle"},
            {"do": "gate", "name": "s.turn", "turns": 0},
            call(2, op="Publish", topic=T1, msgs=[{"p": "w8-%d-%d" % (k, j)} for j in range(1 + k % 2)]),
            {"do": "gate", "name": "s.turn", "turns": 1},
            {"do": "yield", "n": 2 + k % 6}, {"do": "abort", "h": "p1"}, {"do": "yield", "n": 1 + k % 5},
            {"do": "gate", "name": "s.turn", "turns": -1},
            Q, {"do": "advance", "ms": 50}, Q,
            {"do": "abort", "h": "p2"}, {"do": "drain", "c": 9}], seed=sd, cap=cap))
        # W10-W12: the availability event is handled by the actor DIRECTLY behind the consumer's empty
        # pull, before the consumer's handler runs again (the event sits behind the pull request in
        # the mailbox, or is the expiry that falls due in the same actor poll): whatever the handler
        # does between "pulled nothing" and "waits" must not lose it
        gate0, gate_open = {"do": "gate", "name": "s.turn", "turns": 0}, {"do": "gate", "name": "s.turn", "turns": -1}
        consumer = (start("p", 3, op="Pull", sub=S1, max=1, ri=False) if k % 2 == 0
                    else {"do": "sopen", "h": "s", "c": 3, "sub": S1, "max": 1})
        finish_consumer = ([{"do": "wait", "h": "p"}] if k % 2 == 0 else [{"do": "sabandon", "h": "s"}])
        out.append(scn("c06-W10-%d" % k, pre + [
            call(2, op="Publish", topic=T1, msgs=[{"p": "w10-%d" % k}]), call(2, op="Pull", sub=S1, max=1, ri=True),
            gate0, consumer, {"do": "settle"},
            start("n", 4, op="ModAck", sub=S1, acks=[{"d": 1}], secs=0), {"do": "settle"},
            gate_open, {"do": "settle"}, Q, {"do": "advance", "ms": 50}, Q] + finish_consumer + [Q, {"do": "drain", "c": 9}],
            seed=sd, cap=cap))
        out.append(scn("c06-W11-%d" % k, pre + [
            gate0, consumer, {"do": "settle"},
            start("pb", 4, op="Publish", topic=T1, msgs=[{"p": "w11-%d-%d" % (k, j)} for j in range(1 + k % 2)]), {"do": "settle"},
            gate_open, {"do": "settle"}, Q, {"do": "advance", "ms": 50}, Q] + finish_consumer + [Q, {"do": "drain", "c": 9}],
            seed=sd, cap=cap))
        out.append(scn("c06-W12-%d" % k, pre + [
            call(2, op="Publish", topic=T1, msgs=[{"p": "w12-%d" % k}]), call(2, op="Pull", sub=S1, max=1, ri=True),
            {"do": "advance", "ms": 9000 + 100 * (k % 5)},
            gate0, consumer, {"do": "settle"},
            {"do": "advance", "ms": 1300}, gate_open, {"do": "settle"}, Q, {"do": "advance", "ms": 300}, Q]
            + finish_consumer + [Q, {"do": "drain", "c": 9}], seed=sd, cap=cap))
        # W16: an acknowledgement / extension of ANOTHER delivery is handled by the actor after a
        # delivery's deadline has passed and before the expiry itself is (the actor is held with the
        # request taken from its mailbox while the clock crosses the deadline): the expired message
        # still reaches the waiting consumer
        late_req = (start("n", 4, op="Ack", sub=S1, acks=[{"d": 2}]), start("n", 4, op="ModAck", sub=S1, acks=[{"d": 2}], secs=30),
                    start("n", 4, op="Ack", sub=S1, acks=[{"d": 2}, {"d": 2}]))[k % 3]
        out.append(scn("c06-W16-%d" % k, pre + [
            call(2, op="Publish", topic=T1, msgs=[{"p": "w16-%d-a" % k}, {"p": "w16-%d-b" % k}]), call(2, op="Pull", sub=S1, max=1, ri=True),
            {"do": "advance", "ms": 5000}, call(2, op="Pull", sub=S1, max=1, ri=True),
            consumer, {"do": "settle"},
            {"do": "advance", "ms": 4000 + 100 * (k % 5)},
            gate0, late_req, {"do": "settle"},
            {"do": "advance", "ms": 1300}, gate_open, {"do": "settle"}, Q, {"do": "advance", "ms": 300}, Q]
            + finish_consumer + [Q, {"do": "drain", "c": 9}], seed=sd, cap=cap))
        # W13: a waiting Pull whose batch limit is zero as a 16-bit value, queued AHEAD of an ordinary
        # consumer: the wake-up it gets must not be swallowed
        zero = (0, 65536, 131072, -2147483648)[k % 4]
        other = (start("p2", 4, op="Pull", sub=S1, max=10, ri=False) if k % 2 == 0
                 else {"do": "sopen", "h": "s", "c": 4, "sub": S1, "max": 5})
        out.append(scn("c06-W13-%d" % k, pre + [
            start("p1", 3, op="Pull", sub=S1, max=zero, ri=False), {"do": "settle"}, other, {"do": "settle"},
            call(2, op="Publish", topic=T1, msgs=[{"p": "w13-%d" % k}]), {"do": "settle"}, Q,
            {"do": "advance", "ms": 50}, Q,
            {"do": "abort", "h": "p1"}] + ([{"do": "abort", "h": "p2"}] if k % 2 == 0 else [{"do": "sabandon", "h": "s"}])
            + [{"do": "drain", "c": 9}], seed=sd, cap=cap))
        # W14: consumers waiting on a subscription that also has a push configuration
        if k < 6:
            prepush = [call(1, op="CreateTopic", name=T1), call(1, op="CreateSub", name=S1, topic=T1, ack=10, push="http://127.0.0.1:9/w14")]
            cons = (start("p", 3, op="Pull", sub=S1, max=1, ri=False) if k % 2 == 0 else {"do": "sopen", "h": "s", "c": 3, "sub": S1, "max": 1})
            out.append(scn("c06-W14-%d" % k, prepush + [cons, {"do": "settle"},
                call(2, op="Publish", topic=T1, msgs=[{"p": "w14-%d" % k}]), {"do": "settle"}, Q, {"do": "advance", "ms": 50}, Q]
                + ([{"do": "wait", "h": "p"}] if k % 2 == 0 else [{"do": "sabandon", "h": "s"}]) + [Q, {"do": "drain", "c": 9}],
                seed=sd, cap=cap))
        # W15: an idle stream whose client went away (and the server had time to notice) ahead of a
        # consumer that still waits: the next message goes to the one that waits
        if k < 8:
            waiter = (start("p2", 4, op="Pull", sub=S1, max=1, ri=False) if k % 2 == 0 else {"do": "sopen", "h": "s2", "c": 4, "sub": S1, "max": 1})
            out.append(scn("c06-W15-%d" % k, pre + [
                {"do": "sopen", "h": "s1", "c": 3, "sub": S1, "max": 1 + k % 3}, {"do": "settle"},
                call(2, op="Publish", topic=T1, msgs=[{"p": "w15-%d-warm" % k}]), {"do": "settle"},
                {"do": "ssend", "h": "s1", "acks": [{"d": 1}]}, {"do": "settle"}, Q,
                waiter, {"do": "settle"},
                {"do": "sabandon", "h": "s1"}, {"do": "settle"}, Q, {"do": "advance", "ms": 20}, Q,
                call(2, op="Publish", topic=T1, msgs=[{"p": "w15-%d" % k}]), {"do": "settle"}, Q, {"do": "advance", "ms": 50}, Q]
                + ([{"do": "wait", "h": "p2"}] if k % 2 == 0 else [{"do": "sabandon", "h": "s2"}]) + [Q, {"do": "drain", "c": 9}],
                seed=sd, cap=cap))
        # W9: a backlog beyond 65535 messages (16-bit arithmetic in the pull path): several waiting
        # consumers, one huge publish; light recording, judged on the reported backlog sizes
        if k < 3:
            n_big = (65546, 65736, 131082)[k]
            s9 = scn("c06-W9-%d" % k, pre + [
                start("p1", 3, op="Pull", sub=S1, max=10, ri=False), start("p2", 4, op="Pull", sub=S1, max=10, ri=False),
                {"do": "sopen", "h": "s", "c": 5, "sub": S1, "max": 100}, {"do": "settle"},
                call(2, op="Publish", topic=T1, msgs=[{"p": "bulk:%d" % n_big}]), Q,
                {"do": "wait", "h": "p1"}, {"do": "wait", "h": "p2"}, Q,
                start("p3", 6, op="Pull", sub=S1, max=10, ri=False), Q, {"do": "wait", "h": "p3"},
                {"do": "sabandon", "h": "s"}], seed=sd, cap=cap)
            s9["meta"]["light"] = True
            out.append(s9)
        # W6: a consumer is dropped while it is being woken and its pull waits for room in a
        # full mailbox (the wake-up must be handed on)
        if cap <= 2:
            fill = [{"do": "hold", "h": "f%d" % j, "c": 20 + j, "call": dict(op="GetSub", name=S1)} for j in range(cap)]
            out.append(scn("c06-W6-%d" % k, pre + [
                start("p1", 3, op="Pull", sub=S1, max=1, ri=False), {"do": "settle"},
                start("p2", 4, op="Pull", sub=S1, max=1, ri=False), {"do": "settle"},
                call(2, op="Publish", topic=T1, msgs=[{"p": "w6-%d" % k}])] + fill + [
                {"do": "yield", "n": 1 + k % 5}, {"do": "abort", "h": "p1"}, {"do": "release"},
                Q, {"do": "advance", "ms": 50}, Q,
                {"do": "abort", "h": "p2"}, {"do": "drain", "c": 9}], seed=sd, cap=cap))
            # W7: the same, forced with the schedule gate: the subscription actor takes exactly one
            # turn (the post) while the mailbox is kept full, the woken consumer's pull parks for a
            # permit, and that consumer is dropped there (15-step TLC counterexample of DeltioActors
            # with PullHandsOnWakeup = FALSE)
            fill = [{"do": "hold", "h": "f%d" % j, "c": 20 + j, "call": dict(op="GetSub", name=S1)} for j in range(cap + 1)]
            out.append(scn("c06-W7-%d" % k, pre + [
                start("p1", 3, op="Pull", sub=S1, max=1, ri=False), {"do": "settle"},
                start("p2", 4, op="Pull", sub=S1, max=1, ri=False), {"do": "settle"},
                {"do": "gate", "name": "s.turn", "turns": 0},
                call(2, op="Publish", topic=T1, msgs=[{"p": "w7-%d" % k}])] + fill + [
                {"do": "gate", "name": "s.turn", "turns": 1},
                {"do": "yield", "n": 2 + k % 6}, {"do": "abort", "h": "p1"}, {"do": "yield", "n": 1 + k % 7},
                {"do": "gate", "name": "s.turn", "turns": -1}, {"do": "release"},
                Q, {"do": "advance", "ms": 50}, Q,
                {"do": "abort", "h": "p2"}, {"do": "drain", "c": 9}], seed=sd, cap=cap))
    return out


def c06_mc(work, quick, violations):
    total = {"generated": 0, "distinct": 0}
    runs = []
    configs = [
        ("a", {"b1": ("bpull", "s1"), "b2": ("bpull", "s1"), "pub": ("publish", "s1"), "pub2": ("publish", "s1"), "n": ("nack", "s1")}, 2, []),
        ("b", {"b1": ("bpull", "s1"), "st": ("stream", "s1"), "pub": ("publish", "s1"), "n": ("nack", "s1"), "a": ("ack", "s1")}, 1, []),
        ("c", {"b1": ("bpull", "s1"), "b2": ("bpull", "s1"), "pub": ("publish", "s1"), "n": ("nack", "s1")}, 1, ["b1"]),
        ("e", {"b1": ("bpull", "s1"), "b2": ("bpull", "s1"), "pub": ("publish", "s1"), "a": ("ack", "s1")}, 1, ["b1", "b2"]),
    ]
    if not quick:
        configs.append(("d", {"b1": ("bpull", "s1"), "b2": ("bpull", "s1"), "st": ("stream", "s1"), "pub": ("publish", "s1"),
                              "pub2": ("publish", "s1"), "n": ("nack", "s1")}, 2, ["b2"]))
    for name, procs, cap, cancel in configs:
        r = V.actors_mc(os.path.join(work, "mc"), "c06_" + name, procs, cap=cap, backlog=0, max_expire=1, allow_cancel=cancel,
                        invariants=["TypeOK", "C06_NoLostWake", "C07_NoHang"])
        if r["stats"]:
            total["generated"] += r["stats"]["generated"]
            total["distinct"] += r["stats"]["distinct"]
        runs.append({"config": name, "stats": r["stats"], "error": r["error"]})
        if r["error"]:
            path = V.save_replay("C06", 0, {"kind": "model", "error": r["error"], "config": r["config"], "trace": r["trace"],
                                            "tlc_output_tail": r["out"][-5000:]})
            violations.append(("model DeltioActors: " + r["error"], path))
    # vacuity control: design mutations must be rejected
    for sw in ("NoRenotifyAfterPartialPull", "PostDoesNotNotify"):
        m = V.actors_mc(os.path.join(work, "mc"), "c06_mut", configs[0][1], cap=2, switches={sw: True}, invariants=["C06_NoLostWake"])
        if not m["error"]:
            raise V.ToolError("vacuity: the model with %s=TRUE satisfies C06_NoLostWake" % sw)
    m = V.actors_mc(os.path.join(work, "mc"), "c06_pinned", configs[3][1], cap=1, switches={"PullHandsOnWakeup": False},
                    allow_cancel=["b1", "b2"], max_expire=0, invariants=["C06_NoLostWake"])
    if not m["error"]:
        raise V.ToolError("vacuity: the model without the wake-up hand-on satisfies C06_NoLostWake under cancellation")
    # liveness: a consumer is not left parked for ever next to a non-empty backlog
    lprocs = {"b1": ("bpull", "s1"), "b2": ("bpull", "s1"), "pub": ("publish", "s1"), "n": ("nack", "s1")}
    if not quick:
        lprocs["st"] = ("stream", "s1")
    liveness_mc("C06", work, "c06_live", lprocs, ["C06_Woken"], [{"PullHandsOnWakeup": False}, {"PostDoesNotNotify": True}],
                violations, total, runs, cap=1, backlog=0, cancel=["b1"])
    return {"stats": total, "runs": runs}


def plan_c06(prop, tier, seed, t0):
    n = 30 if tier == "quick" else 600
    # ... plus the stream control family: messages given back by a control message reach a waiting consumer
    return scenario_check(prop, tier, seed, t0, c06_scenarios(n, seed) + stream_ctrl_scenarios(seed, tier == "quick")
                          + stream_life_scenarios(seed, tier == "quick") + idle_scenarios(seed, tier == "quick"), mc=c06_mc,
                          explore=[("consumers", 64, 3000), ("data", 32, 1000)])


RELEVANT["C06"] = {"quiet"}


def c16_mc(work, quick, violations):
    """Every request kind, cancelled at every suspension point, with fillers that saturate the
    mailboxes (CAP = 1): at rest every existing subscription is attached, no actor is stuck, no
    wake-up is lost."""
    total = {"generated": 0, "distinct": 0}
    runs = []
    kinds = ["delete", "publish", "pull", "ack", "nack", "create", "bpull", "stream", "tdelete"]
    for kind in kinds:
        procs = {"x": (kind, "s2" if kind == "create" else "s1"),
                 "f1": ("list", "s1"), "f2": ("ack", "s1"), "pub": ("publish", "s1"), "b": ("bpull", "s1")}
        if not quick:
            procs["f3"] = ("pull", "s1")
        r = V.actors_mc(os.path.join(work, "mc"), "c16_" + kind, procs, subs=("s1", "s2"), cap=1, backlog=1, max_expire=1,
                        allow_cancel=["x"], invariants=["TypeOK", "C16_Attached", "C07_NoHang", "C07_ActorsIdle", "C06_NoLostWake"])
        if r["stats"]:
            total["generated"] += r["stats"]["generated"]
            total["distinct"] += r["stats"]["distinct"]
        runs.append({"kind": kind, "stats": r["stats"], "error": r["error"]})
        if r["error"]:
            path = V.save_replay("C16", 0, {"kind": "model", "error": r["error"], "config": r["config"], "trace": r["trace"],
                                            "tlc_output_tail": r["out"][-5000:]})
            violations.append(("model DeltioActors (%s): %s" % (kind, r["error"]), path))
    pinned = V.actors_mc(os.path.join(work, "mc"), "c16_pinned", {"x": ("create", "s2"), "f1": ("list", "s1"), "f2": ("list", "s1")},
                         subs=("s1", "s2"), cap=1, allow_cancel=["x"], switches={"AttachDetached": False}, invariants=["C16_Attached"])
    if not pinned["error"]:
        raise V.ToolError("vacuity: the model with AttachDetached=FALSE satisfies C16_Attached")
    return {"stats": total, "runs": runs}


def plan_c16(prop, tier, seed, t0):
    quick = tier == "quick"
    # ... plus the wake-up hand-over families of C06 in which a waiting or woken consumer is
    # abandoned (W5, W7, W8): a subscription wedged by an abandoned consumer is a C16 matter too
    handover = [s for s in c06_scenarios(6 if quick else 60, seed) if any(w in s["id"] for w in ("-W5-", "-W7-", "-W8-"))]
    # ... and the deliveries of an abandoned streaming consumer come back after their deadlines, also
    # when those lie a few milliseconds apart and requests arrive in between
    return scenario_check(prop, tier, seed, t0, cancel_scenarios(seed, quick=quick) + handover
                          + deadline_probe_scenarios(seed, quick, abandon=True), mc=c16_mc,
                          explore=[("consumers", 48, 2000), ("mixed", 32, 1000)])


RELEVANT["C16"] = {"cancel"}


def c12_mc(work, quick, violations):
    total = {"generated": 0, "distinct": 0}
    runs = []
    configs = [
        ("a", {"st": ("stream", "s1"), "bp": ("bpull", "s1"), "d": ("delete", "s1"), "pub": ("publish", "s1")}, 2),
        ("b", {"st": ("stream", "s1"), "bp": ("bpull", "s1"), "d": ("delete", "s1"), "a": ("ack", "s1"), "q": ("pull", "s1")}, 1),
    ]
    if not quick:
        configs.append(("c", {"st": ("stream", "s1"), "st2": ("stream", "s1"), "bp": ("bpull", "s1"), "d": ("delete", "s1"),
                              "d2": ("delete", "s1"), "pub": ("publish", "s1"), "n": ("nack", "s1")}, 2))
    invs = ["TypeOK", "C12_Released", "C12_Status", "C07_NoHang"]
    for name, procs, cap in configs:
        # (config c: 58 million distinct states, 10 to 15 minutes at 16 workers on an idle machine)
        r = V.actors_mc(os.path.join(work, "mc"), "c12_" + name, procs, cap=cap, backlog=1, max_expire=1, invariants=invs,
                        workers=16 if name == "c" else 8, timeout=3600 if name == "c" else 900)
        if r["stats"]:
            total["generated"] += r["stats"]["generated"]
            total["distinct"] += r["stats"]["distinct"]
        runs.append({"config": name, "stats": r["stats"], "error": r["error"]})
        if r["error"]:
            path = V.save_replay("C12", 0, {"kind": "model", "error": r["error"], "config": r["config"], "trace": r["trace"],
                                            "tlc_output_tail": r["out"][-5000:]})
            violations.append(("model DeltioActors: " + r["error"], path))
    for sw in ("ClosedMeansNotFound", "PullWatchesDeleted"):
        m = V.actors_mc(os.path.join(work, "mc"), "c12_pinned", configs[0][1], cap=2, backlog=1, switches={sw: False}, invariants=invs)
        if not m["error"]:
            raise V.ToolError("vacuity: the model with %s=FALSE satisfies the C12 invariants" % sw)
    # design mutation (seed C12c): the deleting actor waits for room in the topic's mailbox without
    # serving its own - with both mailboxes congested nobody moves any more
    mprocs = {"st": ("stream", "s1"), "d": ("delete", "s1"), "pub": ("publish", "s1"), "pub2": ("publish", "s1"),
              "a": ("ack", "s1"), "q": ("pull", "s1")}
    r = V.actors_mc(os.path.join(work, "mc"), "c12_load", mprocs, cap=1, backlog=1, invariants=invs)
    if r["stats"]:
        total["generated"] += r["stats"]["generated"]
        total["distinct"] += r["stats"]["distinct"]
    runs.append({"config": "load", "stats": r["stats"], "error": r["error"]})
    if r["error"]:
        path = V.save_replay("C12", 0, {"kind": "model", "error": r["error"], "config": r["config"], "trace": r["trace"],
                                        "tlc_output_tail": r["out"][-5000:]})
        violations.append(("model DeltioActors: " + r["error"], path))
    m = V.actors_mc(os.path.join(work, "mc"), "c12_load_mut", mprocs, cap=1, backlog=1, switches={"RemoveSendOutsideDrainLoop": True},
                    invariants=invs)
    if not m["error"]:
        raise V.ToolError("vacuity: the model with RemoveSendOutsideDrainLoop=TRUE satisfies the C12 invariants")
    # liveness: consumers of a deleted subscription are eventually released
    lprocs = {"st": ("stream", "s1"), "bp": ("bpull", "s1"), "d": ("delete", "s1")}
    if not quick:
        lprocs["pub"] = ("publish", "s1")
    liveness_mc("C12", work, "c12_live", lprocs, ["C12_EventuallyReleased", "C07_Answered"],
                [{"PullWatchesDeleted": False}, {"ClosedMeansNotFound": False}], violations, total, runs, cap=1, backlog=1)
    return {"stats": total, "runs": runs}


def plan_c12(prop, tier, seed, t0):
    n = 64 if tier == "quick" else 2000
    return scenario_check(prop, tier, seed, t0, c12_scenarios(n, seed) + inflight_delete_scenarios(seed, tier == "quick"),
                          mc=c12_mc, explore=[("churn", 48, 2000)])


RELEVANT["C12"] = {"send", "s.del1"}

CASE_RE = None


def c18_cases(work, quick):
    """TLC enumerates all strings seg1.project.seg2.id over near-miss segment variants and a small
    alphabet, with the reference verdict of the grammar."""
    import re
    cfgp = os.path.join(work, "Inputs.cfg")
    alphabet = {"a", "/", "é"} if quick else {"a", "/", "é", "-"}
    V.write_cfg(cfgp, "CaseSpec", {"Alphabet": alphabet, "MaxLen": 2}, invariants=["GrammarOK", "Emit"])
    r = V.model_check("Inputs", cfgp, work, workers=8, timeout=1200)
    if r["stats"] is None or r["error"]:
        raise V.ToolError("Inputs.tla case enumeration failed: %s\n%s" % (r["error"], r["out"][-1500:]))
    cases = []
    for line in r["out"].splitlines():
        m = re.match(r'^<<"CASE", "(.*)">>$', line.strip())
        if m:
            c = json.loads(json.loads('"' + m.group(1) + '"'))
            cases.append(("".join(c["s"]), c["topic"], c["sub"]))
    return r, cases


def plan_c18(prop, tier, seed, t0):
    import random
    quick = tier == "quick"
    work = os.path.join(V.WORK, prop)
    shutil.rmtree(work, ignore_errors=True)
    os.makedirs(work)
    build_s = V.build_harness()
    mc, cases = c18_cases(work, quick)
    strings = sorted({c[0] for c in cases})
    rnd = random.Random(seed)
    # random longer strings around the valid shape (sampled, not enumerated)
    alpha = ["a", "b", "z", "0", "9", "-", "_", "/", "é", "ß", "日", ".", " ", "%"]
    extra = set()
    for _ in range(3000 if quick else 60000):
        proj = "".join(rnd.choice(alpha) for _ in range(rnd.randrange(0, 8)))
        ident = "".join(rnd.choice(alpha) for _ in range(rnd.randrange(0, 12)))
        seg = rnd.choice(["/topics/", "/subscriptions/", "/topics", "/topic/", "/subscription/", "//topics/", "/Topics/",
                          "/topics//", "/tøpics/", "/subscriptionz/"])
        pre = rnd.choice(["projects/", "projects/", "projects/", "project/", "Projects/", "/projects/", "projects//", ""])
        extra.add(pre + proj + seg + ident)
    # long ids and projects (40, 41, 64, 255, 300 characters; ASCII and multi-byte)
    for n_chars in (39, 40, 41, 42, 64, 100, 255, 300):
        for unit in ("a", "x-", "é", "日"):
            w = (unit * n_chars)[:n_chars]
            extra.update(["projects/p/topics/" + w, "projects/p/subscriptions/" + w, "projects/" + w + "/topics/t",
                          "projects/" + w + "/subscriptions/" + w, "projects/p/topics/" + w[:-1] + "/" + "z"])
    extra.update(["projects/lets-go/topics/deltio", "projects/p/subscriptions/x", "projects/p/topics/abcdefghi",
                  "projects/p/topics/a/", "projects/p/topics/a", "projects/p/topics//a", "projects/p/subscriptions/a/",
                  "projects/p/subscriptions/s", "projects/p/topics/t", "projects//topics/t", "projects/p/topics/"])
    all_strings = strings + sorted(extra - set(strings))
    steps = []
    for s in all_strings:
        steps.append({"do": "parse", "fn": "topic", "s": s})
        steps.append({"do": "parse", "fn": "sub", "s": s})
    n_threads = 8
    scenarios = []
    per = (len(steps) + n_threads - 1) // n_threads
    for k in range(n_threads):
        scenarios.append(scn("c18-%d" % k, steps[k * per:(k + 1) * per], seed=seed))
    scn_path = os.path.join(work, "scenarios.ndjson")
    V.write_scenarios(scn_path, scenarios)
    traces = V.dvh_replay(scn_path, os.path.join(work, "replay"), n_threads)
    import concurrent.futures
    with concurrent.futures.ThreadPoolExecutor(max_workers=8) as ex:
        results = list(ex.map(lambda p: V.validate_one(p, work, module="TraceInputs", cfg_constants={"Alphabet": {"a"}, "MaxLen": 0},
                                                       invariants=["Summary"]), traces))
    n_parse = sum(1 for p in traces for line in open(p) if '"k":"parse"' in line)
    accepted_names = sum(1 for p in traces for line in open(p) if '"k":"parse"' in line and '"ok":true' in line)
    violations = []
    extra_cov = {"parse_calls_validated": n_parse, "strings_enumerated_by_TLC": len(strings), "random_longer_strings": len(all_strings) - len(strings),
                 "calls_that_accepted": accepted_names,
                 "exhaustive": False,
                 "explanation": "all strings seg1.project.seg2.id over the segment variants of Inputs.tla and words up to length 2 are enumerated by TLC; longer strings are sampled"}
    # reuse finish(): parse events are not histories, so count evaluations ourselves
    known = V.load_known()
    n = 0
    known_lines = set()
    tool_errors = [r["error"] for r in results if r["error"]]
    for r in results:
        for v in r["viol"]:
            if prop in v.get("props", []):
                ev = V.event_at(r["trace"], v.get("line", -1))
                k = V.matches_known(prop, v, ev, known)
                if k:
                    known_lines.add("KNOWN-FINDING: property=%s %s (%s)" % (prop, k["what"], k["id"]))
                    continue
                n += 1
                if n <= 10:
                    path = V.save_replay(prop, n, {"kind": "parse", "violation": v, "event": ev,
                                                   "scenario": scn("c18-replay", [{"do": "parse", "fn": v.get("fn"), "s": v.get("str")}]),
                                                   "how": "bin/check C18 --replay <this file>"})
                    violations.append(("%s parser on %r" % (v.get("fn"), v.get("str")), path))
    # "names that differ in project or ID denote different resources" on the running server: the same
    # ids in several projects (whose ids begin alike), every name created, looked up, listed and
    # pulled from on its own; judged by the trace specification (a name that never existed and is
    # treated as bound, or resolved to a resource, is taken for another name: tag C18)
    srv = prefix_project_scenarios(seed, quick)
    srv_path = os.path.join(work, "server.ndjson")
    V.write_scenarios(srv_path, srv)
    srv_traces = V.dvh_replay(srv_path, os.path.join(work, "server"), 2)
    srv_accepted = 0
    for r in V.validate_traces(srv_traces, work, parallel=2):
        if r["error"]:
            tool_errors.append(r["error"])
        srv_accepted += (r["summary"] or {}).get("ok", 0)
        for v in r["viol"]:
            if prop in v.get("props", []):
                n += 1
                path = V.save_replay(prop, 100 + n, {"kind": "history", "violation": v, "trace_file": r["trace"],
                                                     "history": V.history_of(r["trace"], v.get("run"))})
                violations.append(("server history %s" % v.get("run"), path))
    extra_cov["server_histories_with_equal_ids_in_several_projects"] = len(srv)
    extra_cov["server_histories_accepted"] = srv_accepted
    for line in sorted(known_lines):
        print(line)
    coverage = {"states": mc["stats"]["distinct"], "transitions": mc["stats"]["generated"],
                "traces_validated_against_impl": n_parse - n,
                "samples": [{"case_string": all_strings[len(all_strings) // 2]},
                            {"recorded_parse_event": json.loads(next(l for l in open(traces[0]) if '"k":"parse"' in l))}],
                "evaluations": n_parse, "distinct_nontrivial": accepted_names,
                "rule": "one evaluation = one recorded call of TopicName::try_parse / SubscriptionName::try_parse (plus Display and re-parse of the echo) judged by TLC against Inputs.tla; non-trivial = the parser accepted the string"}
    coverage.update(extra_cov)
    wall = time.time() - t0
    V.write_evidence(prop, tier, seed, "model_checking", coverage, V_ASSUME("the reference grammar of Inputs.tla is the reading of C18's statement given in DESIGN.md 5 (ids are taken literally: no trimming of slashes)"), wall, n)
    if tool_errors and not violations:
        raise V.ToolError("; ".join(tool_errors)[:2000])
    if violations:
        for what, path in violations[:10]:
            print("VIOLATION property=%s replay=%s" % (prop, path))
            V.log("  ", what)
        print("(%d violating parse calls in total)" % n)
        return 1
    print("OK property=%s tier=%s parse_calls=%d cases=%d wall=%.1fs" % (prop, tier, n_parse, len(all_strings), wall))
    return 0


# The scripted model the real code is replayed against refines the unscripted FlowControlInd.tla
# (whose invariant Apalache proves inductive): the operation a mutator is in, or did last, is read
# off the script; "not observed yet" (-1) maps to "not below".
FLOW_REFINEMENT = r"""SignOf(o) == IF o.op = "inc" THEN 1 ELSE -1
CurIdx(m) == IF pc[m] \in {"am", "nw"} THEN ip[m] ELSE ip[m] - 1
Ind == INSTANCE FlowControlInd WITH
    parked <- {parked[i] : i \in 1..Len(parked)},
    pc <- [p \in DOMAIN pc |-> IF pc[p] = "end" THEN "ab" ELSE pc[p]],
    obsM <- [w \in Waiters |-> IF obsM[w] = -1 THEN MaxMsgs ELSE obsM[w]],
    obsB <- [w \in Waiters |-> IF obsB[w] = -1 THEN MaxBytes ELSE obsB[w]],
    opS <- [m \in Mutators |-> IF CurIdx(m) = 0 THEN 1 ELSE SignOf(Script[m][CurIdx(m)])],
    opB <- [m \in Mutators |-> IF CurIdx(m) = 0 THEN 0 ELSE Script[m][CurIdx(m)].b],
    opM <- [m \in Mutators |-> IF CurIdx(m) = 0 THEN 0 ELSE Script[m][CurIdx(m)].m]
RefinesInd == Ind!Spec
IndInvHolds == Ind!IndInv
"""


def flow_inductive(work, quick):
    """C19 beyond the TLC bound: Apalache discharges that IndInv of FlowControlInd.tla is inductive and
    implies C19_NoMiss and C19_Sound (any number of inc/dec operations, any integer deltas and limits,
    the process sets of ConstInit).  A design mutation (Notified created after the re-check) must be refuted."""
    spec = os.path.join(V.SPEC, "FlowControlInd.tla")
    outd = os.path.join(work, "apalache")
    res = {}

    def run(tag, args, module):
        t = time.time()
        rc, out = V.sh(["timeout", "900", "apalache-mc", "check", "--out-dir=" + outd, "--cinit=ConstInit"] + args + [module],
                       timeout=960, cwd=work)
        res[tag] = round(time.time() - t, 1)
        return out
    for tag, args in (("init_implies_inv", ["--init=Init", "--inv=IndInv", "--length=0"]),
                      ("inv_inductive", ["--init=IndInit", "--inv=IndInv", "--length=1"]),
                      ("inv_implies_c19", ["--init=IndInit", "--inv=Props", "--length=0"])):
        out = run(tag, args, spec)
        if "EXITCODE: OK" not in out or "The outcome is: NoError" not in out:
            raise V.ToolError("Apalache did not discharge %s for FlowControlInd.tla:\n%s" % (tag, out[-2500:]))
    # vacuity control: the same invariant is NOT inductive for the design with the Notified future
    # created after the re-check
    s = open(spec).read().replace("MODULE FlowControlInd", "MODULE FlowControlIndMut")
    for old, new in (('LoadMsgs(w, "c1m", "c1b", "mk")', 'LoadMsgs(w, "c1m", "c1b", "c2m")'),
                     ('LoadBytes(w, "c1b", "done", "mk")', 'LoadBytes(w, "c1b", "done", "c2m")'),
                     ('LoadMsgs(w, "c2m", "c2b", "aw")', 'LoadMsgs(w, "c2m", "c2b", "mk")'),
                     ('LoadBytes(w, "c2b", "done", "aw")', 'LoadBytes(w, "c2b", "done", "mk")'),
                     ('    /\\ pc\' = [pc EXCEPT ![w] = "c2m"]\n    /\\ UNCHANGED <<bytes, msgs, gen, parked, obsM', '    /\\ pc\' = [pc EXCEPT ![w] = "aw"]\n    /\\ UNCHANGED <<bytes, msgs, gen, parked, obsM'),
                     ('THEN /\\ pc\' = [pc EXCEPT ![w] = "mk"]', 'THEN /\\ pc\' = [pc EXCEPT ![w] = "c2m"]'),
                     ('    /\\ sst\' = [sst EXCEPT ![w] = "none"]\n    /\\ pc\' = [pc EXCEPT ![w] = "mk"]', '    /\\ sst\' = [sst EXCEPT ![w] = "none"]\n    /\\ pc\' = [pc EXCEPT ![w] = "c2m"]'),
                     ('pc[w] \\in {"c2m", "c2b", "aw"} => sst[w] = "init"', 'pc[w] \\in {"aw"} => sst[w] = "init"')):
        if s.count(old) != 1:
            raise V.ToolError("FlowControlInd.tla changed: the design mutation no longer applies (%s)" % old[:40])
        s = s.replace(old, new)
    mut = os.path.join(work, "FlowControlIndMut.tla")
    open(mut, "w").write(s)
    out = run("mutant_refuted", ["--init=IndInit", "--inv=IndInv", "--length=1"], mut)
    if "violated" not in out or "The outcome is: Error" not in out:
        raise V.ToolError("vacuity: IndInv is inductive for the mutated flow-control design:\n" + out[-1500:])
    shutil.rmtree(outd, ignore_errors=True)
    return res


def flow_module(work, name, waiters, scripts):
    mod = "MCF_" + name
    def rec(o):
        return '[op |-> "%s", b |-> %d, m |-> %d]' % (o["op"], o["b"], o["m"])
    arms = " [] ".join('m = "%s" -> <<%s>>' % (m, ", ".join(rec(o) for o in ops)) for m, ops in scripts.items())
    with open(os.path.join(work, mod + ".tla"), "w") as f:
        f.write("---- MODULE %s ----\nEXTENDS FlowControl\nScriptDef == [m \\in Mutators |-> CASE %s]\n%s====\n" % (mod, arms, FLOW_REFINEMENT))
    with open(os.path.join(work, "T" + mod + ".tla"), "w") as f:
        f.write("---- MODULE T%s ----\nEXTENDS TraceFlow\nScriptDef == [m \\in Mutators |-> CASE %s]\n====\n" % (mod, arms))
    return mod


def flow_run(work, mod, spec, consts, invariants=(), properties=(), view=None, extra=(), post=None, env=None, timeout=900, workers=8):
    cfgp = os.path.join(work, "%s_%s.cfg" % (mod, spec))
    lines = ["SPECIFICATION %s" % spec, "CHECK_DEADLOCK FALSE"]
    if view:
        lines.append("VIEW " + view)
    lines.append("CONSTANTS")
    for k, v in consts.items():
        lines.append("  %s = %s" % (k, V.tla_value(v)))
    lines.append("  Script <- ScriptDef")
    if invariants:
        lines.append("INVARIANT " + " ".join(invariants))
    if properties:
        lines.append("PROPERTY " + " ".join(properties))
    if post:
        lines.append("POSTCONDITION " + post)
    open(cfgp, "w").write("\n".join(lines) + "\n")
    meta = os.path.join(work, "tlc-meta-%s-%d" % (mod, os.getpid()))
    cmd = ["timeout", str(timeout), "java", "-XX:+UseParallelGC", "-Xss64m", "-DTLA-Library=" + V.SPEC,
           "-cp", V.TLA_JAR + ":/opt/veriftools/tla/CommunityModules-deps.jar", "tlc2.TLC",
           "-workers", str(workers), "-metadir", meta, "-cleanup", "-noGenerateSpecTE", "-config", cfgp] + list(extra) + [
           os.path.join(work, mod + ".tla")]
    e = {"JAVA_TOOL_OPTIONS": ""}
    if env:
        e.update(env)
    rc, out = V.sh(cmd, timeout=timeout + 30, env=e, cwd=work)
    shutil.rmtree(meta, ignore_errors=True)
    return rc, out


def plan_c19(prop, tier, seed, t0):
    import re
    quick = tier == "quick"
    work = os.path.abspath(os.path.join(V.WORK, prop))
    shutil.rmtree(work, ignore_errors=True)
    os.makedirs(work)
    build_s = V.build_harness()
    configs = [
        ("a", ["w1", "w2"], {"m1": [{"op": "inc", "b": 1, "m": 0}, {"op": "dec", "b": 1, "m": 0}], "m2": [{"op": "dec", "b": 1, "m": 1}]}, 1, 1, 1, 1),
        ("b", ["w1", "w2", "w3"], {"m1": [{"op": "dec", "b": 1, "m": 0}], "m2": [{"op": "dec", "b": 0, "m": 1}]}, 1, 1, 1, 1),
        ("c", ["w1"], {"m1": [{"op": "dec", "b": 1, "m": 1}, {"op": "inc", "b": 1, "m": 1}, {"op": "dec", "b": 1, "m": 1}]}, 1, 1, 1, 1),
    ]
    # e, f: small enough to force EVERY behaviour of the model on the real code (no VIEW: the
    # history is part of the state, so each terminal state is one complete behaviour)
    configs.append(("e", ["w1"], {"m1": [{"op": "dec", "b": 1, "m": 1}]}, 1, 1, 1, 1))
    if not quick:
        configs.append(("g", ["w1"], {"m1": [{"op": "dec", "b": 1, "m": 0}], "m2": [{"op": "dec", "b": 0, "m": 1}]}, 1, 1, 1, 1))
        configs.append(("d", ["w1", "w2"], {"m1": [{"op": "dec", "b": 1, "m": 0}, {"op": "inc", "b": 1, "m": 0}, {"op": "dec", "b": 1, "m": 0}],
                                            "m2": [{"op": "dec", "b": 0, "m": 1}, {"op": "inc", "b": 0, "m": 1}, {"op": "dec", "b": 0, "m": 1}]}, 1, 1, 1, 1))
    violations = []
    total = {"generated": 0, "distinct": 0}
    traces = []
    n_sched = 0
    results = []
    samples = []
    inductive = flow_inductive(work, quick)
    for (name, waiters, scripts, maxb, maxm, initb, initm) in configs:
        mod = flow_module(work, name, waiters, scripts)
        consts = dict(Waiters=set(waiters), Mutators=set(scripts.keys()), MaxBytes=maxb, MaxMsgs=maxm, InitBytes=initb, InitMsgs=initm,
                      NotifiedAfterCheck=False, NotifyOneInsteadOfWaiters=False)
        # 1. exhaustive model check (safety + liveness) and one history per terminal state
        all_behaviours = name in ("e", "f", "g")
        rc, out = flow_run(work, mod, "Spec", consts, invariants=["TypeOK", "C19_NoMiss", "C19_Sound", "IndInvHolds", "EmitSched"],
                           properties=["RefinesInd"] if all_behaviours else ["C19_AllWoken", "RefinesInd"], view=None if all_behaviours else "View")
        st = V.parse_mc(out)
        if not st:
            raise V.ToolError("TLC failed on FlowControl config %s:\n%s" % (name, out[-2000:]))
        total["generated"] += st["generated"]
        total["distinct"] += st["distinct"]
        if "No error has been found" not in out:
            m = re.search(r"Error: (.*)", out)
            if not m:
                raise V.ToolError("TLC did not complete on FlowControl config %s:\n%s" % (name, out[-1500:]))
            path = V.save_replay(prop, 0, {"kind": "model", "config": name, "error": m.group(1) if m else "?", "tlc_output_tail": out[-5000:]})
            violations.append(("model FlowControl %s: %s" % (name, m.group(1) if m else "error"), path))
        scheds = []
        for line in out.splitlines():
            mm = re.match(r'^<<"SCHED", "(.*)">>$', line.strip())
            if mm:
                scheds.append(json.loads(json.loads('"' + mm.group(1) + '"')))
        # 2. random walks of the model (every behaviour is a schedule)
        rc2, out2 = flow_run(work, mod, "Spec", consts, invariants=["EmitSched"], workers=1,
                             extra=["-simulate", "num=%d" % (300 if quick else 5000), "-depth", "80", "-seed", str(seed)], timeout=300)
        for line in out2.splitlines():
            mm = re.match(r'^<<"SCHED", "(.*)">>$', line.strip())
            if mm:
                scheds.append(json.loads(json.loads('"' + mm.group(1) + '"')))
        uniq = sorted({json.dumps(s) for s in scheds})
        if len(uniq) > 20000:
            import random as _r
            _r.Random(seed).shuffle(uniq)
            uniq = uniq[:20000]
        if not uniq:
            raise V.ToolError("no schedules from FlowControl config " + name)
        jobs = []
        for i, s in enumerate(uniq):
            jobs.append({"id": "c19-%s-%d" % (name, i), "waiters": waiters, "mutators": scripts, "max_bytes": maxb, "max_msgs": maxm,
                         "init_bytes": initb, "init_msgs": initm, "steps": json.loads(s)})
        jobs.append({"id": "c19-%s-free" % name, "waiters": waiters, "mutators": scripts, "max_bytes": maxb, "max_msgs": maxm,
                     "init_bytes": initb, "init_msgs": initm, "free": True, "rounds": 300 if quick else 20000})
        n_sched += len(jobs)
        samples.append(jobs[len(jobs) // 2])
        sp = os.path.join(work, "sched_%s.ndjson" % name)
        V.write_scenarios(sp, jobs)
        rc3, out3 = V.sh([V.DVH, "flow", sp, "--out", os.path.join(work, "flow_" + name)], timeout=1200)
        if rc3 != 0:
            raise V.ToolError("dvh flow failed: " + out3[-2000:])
        tr = os.path.join(work, "flow_%s.0.ndjson" % name)
        traces.append(tr)
        # 3. validation with the same constants
        rc4, out4 = flow_run(work, "T" + mod, "TraceSpec", consts, invariants=["Summary"], post="TraceAccepted", workers=1, env={"TRACE": tr})
        res = {"trace": tr, "viol": [], "drift": [], "summary": None, "stuck": None, "error": None, "events": 0}
        for line in out4.splitlines():
            mm = V.LINE_RE.match(line.strip())
            if not mm:
                continue
            payload = json.loads(json.loads('"' + mm.group(2) + '"'))
            if mm.group(1) == "VIOL":
                res["viol"].append(payload)
            elif mm.group(1) == "DRIFT":
                res["drift"].append(payload)
            elif mm.group(1) == "SUMMARY":
                res["summary"] = payload
            elif mm.group(1) == "STUCK":
                res["stuck"] = payload
        if "No error has been found" not in out4:
            res["error"] = "TLC: " + out4[-1200:]
        results.append(res)
        # vacuity control (thorough, or config a in quick): the design mutations must be rejected
        if name == "a":
            for sw in ("NotifiedAfterCheck", "NotifyOneInsteadOfWaiters"):
                c2 = dict(consts)
                c2[sw] = True
                rc5, out5 = flow_run(work, mod, "Spec", c2, invariants=["C19_NoMiss"], view="View")
                if "Invariant C19_NoMiss is violated" not in out5:
                    raise V.ToolError("vacuity: FlowControl with %s=TRUE satisfies C19_NoMiss" % sw)
    n = len(violations)
    accepted = sum((r["summary"] or {}).get("ok", 0) for r in results)
    steps = sum((r["summary"] or {}).get("steps", 0) for r in results)
    drift = sum(len(r["drift"]) for r in results)
    tool_errors = [r["error"] for r in results if r["error"]]
    for r in results:
        for v in r["viol"]:
            if prop in v.get("props", []):
                n += 1
                path = V.save_replay(prop, n, {"kind": "flow", "violation": v, "trace_file": r["trace"],
                                               "history": V.history_of(r["trace"], v.get("run"))})
                violations.append(("flow schedule %s" % v.get("run"), path))
    coverage = {"states": total["distinct"], "transitions": total["generated"], "traces_validated_against_impl": accepted,
                "samples": samples[:2], "evaluations": n_sched, "distinct_nontrivial": n_sched - len(configs),
                "rule": "one evaluation = one TLC behaviour of FlowControl.tla forced on the real FlowControl by the thread-per-process scheduler "
                        "(sync points before every atomic access), or one free-running stress job; distinct by step sequence; non-trivial = forced schedule",
                "model_steps_replayed_on_real_code": steps, "schedules_where_code_left_the_model(drift)": drift,
                "inductive_invariant(FlowControlInd.tla, Apalache, seconds per obligation)": inductive,
                "refinement": "every scripted configuration is checked by TLC to refine FlowControlInd (PROPERTY RefinesInd, INVARIANT IndInvHolds)",
                "build_s": round(build_s, 1), "exhaustive": False}
    wall = time.time() - t0
    V.write_evidence(prop, tier, seed, "model_checking", coverage,
                     V_ASSUME("memory-ordering effects below statement granularity are outside the model (one thread runs at a time in forced schedules)"),
                     wall, len(violations))
    if tool_errors and not violations:
        raise V.ToolError("; ".join(tool_errors)[:2000])
    if violations:
        for what, path in violations[:10]:
            print("VIOLATION property=%s replay=%s" % (prop, path))
            V.log("  ", what)
        return 1
    print("OK property=%s tier=%s schedules=%d accepted=%d steps=%d drift=%d states=%d wall=%.1fs"
          % (prop, tier, n_sched, accepted, steps, drift, total["distinct"], wall))
    return 0


PLANS = {
    "C01": plan_c01, "C02": plan_c02, "C03": plan_c03, "C04": plan_c04, "C05": plan_c05,
    "C08": plan_c08, "C09": plan_c09, "C10": plan_c10, "C11": plan_c11, "C13": plan_c13, "C15": plan_c15,
    "C12": plan_c12, "C07": plan_c07, "C06": plan_c06, "C16": plan_c16, "C18": plan_c18, "C19": plan_c19,
    "C14": lambda prop, tier, seed, t0: __import__("plan_push").plan_c14(prop, tier, seed, t0),
    "C17": lambda prop, tier, seed, t0: __import__("plan_inputs").plan_c17(prop, tier, seed, t0),
}
