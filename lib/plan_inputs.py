"""C17: malformed requests are rejected cleanly and change nothing."""
import json
import os
import random
import shutil

import vcheck as V
from vcheck import T1, S1, S2


def bad_names(rnd, cases, n_enum):
    fixed = ["", "x", "projects/", "projects/p1", "projects/p1/topics", "projects/p1/topics/", "projects//topics/t1",
             "brojects/p1/topics/t1", "projects/p1/subscriptions/s1", "projects/p1/topics/t1", "projects/p1/topicz/t1",
             "/projects/p1/topics/t1", "projects/p1//topics/t1", "projects/p1/topics//", "a" * 500, "projects/p1/topics/" + "b" * 400,
             "projects/p1/topics/" + "é" * 3, "projects/pé/subscriptions/ß", "projects/p1/subscriptions/", "projects/p1/subscriptions",
             "projects/p1/subscriptionz/s1", "projects/p1/subscription/s1", "projects/" + "/" * 40, "projects/p1/topics/t1/",
             "projects/p1/subscriptions/s1/", "\u0000", "projects/p1/topics/t1\n", " projects/p1/topics/t1"]
    # long malformed values made of multi-byte characters, in every byte alignment (whatever byte
    # offset an error path cuts a value at, one of these has no character boundary there)
    for unit in ("é", "日", "😀"):
        for pad in range(4):
            fixed.append("x" * pad + unit * (400 // len(unit.encode())))
            fixed.append("projects/" + "y" * pad + unit * (300 // len(unit.encode())))
    enum = [c[0] for c in cases]
    rnd.shuffle(enum)
    return fixed + enum[:n_enum]


def ref_project(name):
    """The project of a string that has the shape of a resource name (mirrors Names.tla; only used to
    tell the listing filter of the trace specification which project a created resource is in)."""
    for seg in ("/topics/", "/subscriptions/"):
        if name.startswith("projects/"):
            rest = name[len("projects/"):]
            if "/" in rest:
                proj = rest[:rest.index("/")]
                tail = rest[len(proj):]
                if proj and tail.startswith(seg) and len(tail) > len(seg):
                    return proj
    return None


def c17_scenarios(seed, quick, cases, call, scn):
    import plans
    plans_start = plans.start
    rnd = random.Random(seed)
    names = bad_names(rnd, cases, 40 if quick else 400)
    out = []
    setup = [call(1, op="CreateTopic", name=T1), call(1, op="CreateSub", name=S1, topic=T1, ack=10),
             call(1, op="Publish", topic=T1, msgs=[{"p": "a"}, {"p": "b"}, {"p": "c"}]),
             call(1, op="Pull", sub=S1, max=2, ri=True)]
    snapshot = [call(2, op="ListTopics", project="projects/p1", size=0, token=""),
                call(2, op="ListSubs", project="projects/p1", size=0, token=""),
                call(2, op="ListTopicSubs", topic=T1, size=0, token=""),
                call(2, op="GetSub", name=S1)]
    health = [call(3, op="CreateTopic", name="projects/p1/topics/t2"),
              call(3, op="CreateSub", name=S2, topic="projects/p1/topics/t2", ack=10),
              call(3, op="Publish", topic="projects/p1/topics/t2", msgs=[{"p": "h"}]),
              call(3, op="Pull", sub=S2, max=1, ri=True), call(3, op="Ack", sub=S2, acks=[{"d": 1}]),
              call(3, op="Pull", sub=S1, max=10, ri=True), {"do": "drain", "c": 9}]

    def add(sid, mids):
        steps = list(setup)
        for i, m in enumerate(mids):
            steps.append(m)
            if i % 7 == 6:
                steps.extend(snapshot)
        steps.extend(snapshot)
        steps.extend(health)
        s = scn(sid, steps, seed=seed)
        s["meta"]["inputs"] = True
        proj = s["meta"]["proj"]
        proj["projects/p1/topics/t2"] = "p1"
        proj["projects/p1/subscriptions/s8"] = "p1"
        proj["projects/p1/subscriptions/s9"] = "p1"
        for n in names:
            pr = ref_project(n)
            if pr is not None:
                proj[n] = pr
        out.append(s)

    # malformed resource names in every request kind
    per_kind = {
        "CreateTopic": lambda n: call(4, op="CreateTopic", name=n),
        "GetTopic": lambda n: call(4, op="GetTopic", name=n),
        "DeleteTopic": lambda n: call(4, op="DeleteTopic", name=n),
        "Publish": lambda n: call(4, op="Publish", topic=n, msgs=[{"p": "never"}]),
        "ListTopicSubs": lambda n: call(4, op="ListTopicSubs", topic=n, size=0, token=""),
        "CreateSub-name": lambda n: call(4, op="CreateSub", name=n, topic=T1, ack=10),
        "CreateSub-topic": lambda n: call(4, op="CreateSub", name="projects/p1/subscriptions/s9", topic=n, ack=10),
        "GetSub": lambda n: call(4, op="GetSub", name=n),
        "DeleteSub": lambda n: call(4, op="DeleteSub", name=n),
        "Pull": lambda n: call(4, op="Pull", sub=n, max=1, ri=True),
        "Ack": lambda n: call(4, op="Ack", sub=n, acks=[{"d": 1}]),
        "ModAck": lambda n: call(4, op="ModAck", sub=n, acks=[{"d": 1}], secs=0),
    }
    for kind, mk in per_kind.items():
        add("c17-name-" + kind, [mk(n) for n in names])
    add("c17-stream-name", [x for n in names[:30] for x in ({"do": "sopen", "h": "s", "c": 5, "sub": n, "max": 1}, {"do": "settle"},
                                                              {"do": "sabandon", "h": "s"})])
    # malformed ack ids at every position of an otherwise valid batch
    bad_ids = ["abc", "", "1x", "-1", "18446744073709551616", " 1", "1 ", "0x10", "1.0", "٣", "1e3", "NaN"] + \
        ["7" * pad + unit * (300 // len(unit.encode())) for unit in ("é", "日", "😀") for pad in range(4)]
    mids = []
    for b in bad_ids:
        for pos in range(3):
            acks = [{"d": 1}, {"d": 2}]
            acks.insert(pos, {"lit": b})
            mids.append(call(4, op="Ack", sub=S1, acks=acks))
            mids.append(call(4, op="ModAck", sub=S1, acks=acks, secs=0))
            mids.append(call(4, op="ModAck", sub=S1, acks=acks, secs=30))
    add("c17-ackids", mids)
    # out-of-range numbers
    mids = [call(4, op="ModAck", sub=S1, acks=[{"d": 1}, {"d": 2}], secs=s) for s in (-1, -2, -600, -2147483648)]
    mids += [call(4, op=op, **{("project" if op != "ListTopicSubs" else "topic"): ("projects/p1" if op != "ListTopicSubs" else T1)},
                  size=z, token="") for op in ("ListTopics", "ListSubs", "ListTopicSubs") for z in (-1, -1000, -2147483648)]
    # page tokens: undecodable, and decodable ones the server never issued
    for tokn in ("!!!", "AAAA", "AAAAAAAAAAAA", "AAAAAAAAAAA=", "/////////w==", "gICAgICAgIA=", "AQAAAAAAAAA", "AQAAAAAAAAA==", "é", "A" * 200):
        for op in ("ListTopics", "ListSubs", "ListTopicSubs"):
            kw = {"project": "projects/p1"} if op != "ListTopicSubs" else {"topic": T1}
            mids.append(call(4, op=op, size=1, token=tokn, **kw))
    mids += [call(4, op="CreateSub", name="projects/p1/subscriptions/s8", topic=T1, ack=10, push=p)
             for p in ("ftp://x", "x", " ", "mailto:a@b", "//host/path")]
    mids += [call(4, op=op, project=n, size=0, token="") for op in ("ListTopics", "ListSubs")
             for n in ["", "p1", "projects", "projects/", "project/p1", "projects/p1/"] + [x for x in names if len(x) > 150][:24]]
    add("c17-numbers-tokens", mids)
    # out-of-range ack deadlines at creation: whatever the answer, the subscription (if created),
    # its topic and everything else keep working - the deadline is used by the first Pull
    mids = []
    S8 = "projects/p1/subscriptions/s8"
    for a in (-1, -9, -10, -600, -2147483648, 0, 1, 9, 11, 600, 601, 86400, 2000000):
        mids += [call(4, op="CreateSub", name=S8, topic=T1, ack=a),
                 call(4, op="Publish", topic=T1, msgs=[{"p": "ack%d" % a}]),
                 call(4, op="Pull", sub=S8, max=1, ri=True),
                 call(4, op="ModAck", sub=S8, acks=[{"d": 1}], secs=0),
                 call(4, op="Pull", sub=S8, max=1, ri=True),
                 call(4, op="Ack", sub=S8, acks=[{"d": 1}]),
                 call(4, op="Pull", sub=S1, max=10, ri=True),
                 call(4, op="GetSub", name=S8),
                 call(4, op="DeleteSub", name=S8)]
    add("c17-ack-deadlines", mids)
    # the RPCs the emulator does not implement, aimed at existing, missing and malformed resources:
    # a status, no state change (the snapshots before / after must agree), everything keeps working
    mids = []
    for rpc in ("UpdateTopic", "ListTopicSnapshots", "DetachSubscription", "UpdateSubscription", "ModifyPushConfig", "GetSnapshot",
                "ListSnapshots", "CreateSnapshot", "UpdateSnapshot", "DeleteSnapshot", "Seek"):
        for n in (T1, S1, "projects/p1/topics/none", "projects/p1/subscriptions/none", "projects/p1", "", "x/y", names[0]):
            mids.append(call(4, op="Other", rpc=rpc, name=n))
    add("c17-unimplemented", mids)
    # out-of-range batch limits
    mids = []
    for mx in (0, -1, -1000, -2147483648, 2147483647, 65536, 65537):
        mids += [call(4, op="Publish", topic=T1, msgs=[{"p": "mx%d" % mx}]), call(4, op="Pull", sub=S1, max=mx, ri=True),
                 call(4, op="Pull", sub=S1, max=10, ri=True)]
    # ... and as WAITING pulls with a message available: answered (not parked for ever), and an ordinary
    # consumer waiting behind them is served
    for mx in (0, 65536, -2147483648, 131072):
        mids += [call(4, op="Publish", topic=T1, msgs=[{"p": "wmx%d" % mx}]),
                 plans_start("wz", 6, op="Pull", sub=S1, max=mx, ri=False), {"do": "settle"}, {"do": "quiet"},
                 {"do": "abort", "h": "wz"}, call(4, op="Pull", sub=S1, max=10, ri=True)]
        mids += [plans_start("wz", 6, op="Pull", sub=S1, max=mx, ri=False), {"do": "settle"},
                 plans_start("wo", 7, op="Pull", sub=S1, max=10, ri=False), {"do": "settle"},
                 call(4, op="Publish", topic=T1, msgs=[{"p": "wmy%d" % mx}]), {"do": "settle"}, {"do": "quiet"},
                 {"do": "abort", "h": "wz"}, {"do": "abort", "h": "wo"}, call(4, op="Pull", sub=S1, max=10, ri=True)]
    add("c17-pull-limits", mids)
    # inconsistent StreamingPull control messages (each ends its stream; everything else lives on)
    mids = []
    ctrl = [dict(rsub=S1), dict(rmax=5), dict(rmaxb=5), dict(rsecs=[10, 20]), dict(rsecs=[]), dict(acks=[{"lit": "abc"}]),
            dict(mods=[[{"lit": "zz"}, 10]]), dict(mods=[[{"d": 1}, -5]])]
    for i, c in enumerate(ctrl):
        step = {"do": "ssend", "h": "s%d" % i, "mods": [[{"d": 1}, 10]] if "rsecs" in c else []}
        step.update(c)
        mids += [{"do": "sopen", "h": "s%d" % i, "c": 10 + i, "sub": S1, "max": 1}, {"do": "settle"}, step, {"do": "swait", "h": "s%d" % i}]
    # malformed control messages that ALSO carry well-formed work: rejected as a whole, nothing of
    # them is carried out (deliveries 1 and 2 of S1 are outstanding since the setup)
    ctrl2 = [dict(acks=[{"d": 1}], mods=[[{"d": 2}, 10]], rsecs=[10, 20]),     # lengths differ
             dict(acks=[{"d": 1}], mods=[[{"d": 2}, 10]], rsecs=[]),
             dict(acks=[{"d": 1}], mods=[[{"lit": "zz"}, 10]]),                  # bad id among the modifications
             dict(acks=[{"d": 1}], mods=[[{"d": 2}, -5]]),                        # negative seconds
             dict(acks=[{"d": 1}, {"lit": "abc"}], mods=[[{"d": 2}, 10]]),       # bad id among the acks
             dict(acks=[{"d": 1}], rsub=S1), dict(acks=[{"d": 1}], rmax=5), dict(mods=[[{"d": 2}, 0]], rmaxb=5)]
    for i, c in enumerate(ctrl2):
        step = {"do": "ssend", "h": "t%d" % i}
        step.update(c)
        mids += [{"do": "sopen", "h": "t%d" % i, "c": 40 + i, "sub": S1, "max": 1}, {"do": "settle"}, step, {"do": "swait", "h": "t%d" % i},
                 call(4, op="Pull", sub=S1, max=10, ri=True)]
    for mx in (65536, 70000, 2147483647, -1):
        mids += [{"do": "sopen", "h": "m%d" % abs(mx), "c": 30, "sub": S1, "max": mx}, {"do": "swait", "h": "m%d" % abs(mx)}]
    add("c17-stream-ctrl", mids)
    return out


def plan_c17(prop, tier, seed, t0):
    import plans
    quick = tier == "quick"
    work = os.path.join(V.WORK, prop)
    shutil.rmtree(work, ignore_errors=True)
    os.makedirs(work)
    build_s = V.build_harness()
    mc, cases = plans.c18_cases(work, quick)
    import plan_push
    # (real clock, with the push loop running: endpoints that are accepted but are no URLs)
    weird = [s for s in plan_push.c14_scenarios([], seed, quick, plans.call, plans.scn) if s["id"] == "c14-weird-endpoints"]
    scenarios = c17_scenarios(seed, quick, cases, plans.call, plans.scn) + plans.hostile_token_scenarios(seed) + weird
    scn_path = os.path.join(work, "scenarios.ndjson")
    V.write_scenarios(scn_path, scenarios)
    traces = V.dvh_replay(scn_path, os.path.join(work, "replay"), 8)
    results = V.validate_traces(traces, work, parallel=8)
    n_mal = sum(1 for p in traces for line in open(p) if '"INVALID_ARGUMENT"' in line)
    return plans.finish(prop, tier, seed, t0, work, mc, scenarios, traces, results, [], len(cases), build_s,
                        "the space of strings is sampled beyond the structural bound of Inputs.tla; which strings are malformed names is decided by Names.tla",
                        extra_cov={"calls_answered_INVALID_ARGUMENT": n_mal})
