"""C14: push delivery (PushModel.tla scripts played by the scripted HTTP endpoint)."""
import json
import os
import random
import re
import shutil

import vcheck as V
from vcheck import T1, S1, S2


def c14_mc(work, quick, violations):
    cfgp = os.path.join(work, "PushModel.cfg")
    outcomes = [200, 204, 102, 400, 500, 301, 0] if quick else [102, 200, 201, 202, 204, 100, 301, 400, 404, 500, 503, 0]
    # cfg files cannot spell -1: status 0 stands for "connection dropped without an answer"
    lines = ["SPECIFICATION Spec", "CHECK_DEADLOCK FALSE", "CONSTANTS", '  Msgs = {"pa", "pb"}',
             "  Outcomes = {%s}" % ", ".join(str(o) for o in outcomes),
             "  MaxAttempts = 3", "INVARIANT NeverAfterAccept PostedPerAttempt Emit", "PROPERTY Eventually"]
    open(cfgp, "w").write("\n".join(lines) + "\n")
    r = V.model_check("PushModel", cfgp, work, workers=8, timeout=900)
    if r["stats"] is None:
        raise V.ToolError("TLC failed on PushModel:\n" + r["out"][-1500:])
    if r["error"]:
        path = V.save_replay("C14", 0, {"kind": "model", "error": r["error"], "tlc_output_tail": r["out"][-4000:]})
        violations.append(("model PushModel: " + r["error"], path))
    scripts = []
    for line in r["out"].splitlines():
        mm = re.match(r'^<<"SCRIPT", "(.*)">>$', line.strip())
        if mm:
            scripts.append(json.loads(json.loads('"' + mm.group(1) + '"')))
    return {"stats": r["stats"], "scripts": scripts}


def registry_mc(work, quick, violations):
    """MCTurns with push subscriptions: all interleavings of creates and deletes of one name at turn
    granularity keep the push registry exact at rest (C14_RegistryExact); the pinned order (the
    deletion leaves the manager's map before the registry) must be rejected."""
    import plans
    T1R, S1R = plans.T1R, plans.S1R
    ops = {"ct": '[op |-> "CreateTopic", name |-> %s]' % T1R,
           "cs": '[op |-> "CreateSub", name |-> %s, topic |-> %s, push |-> "A"]' % (S1R, T1R),
           "cs2": '[op |-> "CreateSub", name |-> %s, topic |-> %s, push |-> "B"]' % (S1R, T1R),
           "ds": '[op |-> "DeleteSub", name |-> %s]' % S1R,
           "ds2": '[op |-> "DeleteSub", name |-> %s]' % S1R}
    if not quick:
        ops["cs3"] = '[op |-> "CreateSub", name |-> %s, topic |-> %s]' % (S1R, T1R)
        ops["pub"] = '[op |-> "Publish", topic |-> %s, n |-> 1]' % T1R
    invs = ("InvCore", "InvRest", "InvNoDeadAttached", "InvMapsLive", "InvRegistry")
    m = V.turns_mc(os.path.join(work, "mct"), "registry", ops, invariants=invs)
    if m["stats"] is None:
        raise V.ToolError("TLC failed on MCTurns (registry):\n" + m["out"][-1500:])
    if m["error"]:
        path = V.save_replay("C14", 0, {"kind": "model", "module": "MCTurns", "error": m["error"], "trace": m["trace"],
                                        "tlc_output_tail": m["out"][-4000:]})
        violations.append(("model MCTurns (registry): " + m["error"], path))
    pinned = V.turns_mc(os.path.join(work, "mct"), "registry_pinned", ops, switches={"UnregisterFirst": False}, invariants=invs)
    if not pinned["error"] or "InvRegistry" not in pinned["error"]:
        raise V.ToolError("vacuity: MCTurns with UnregisterFirst=FALSE does not violate InvRegistry")
    return {"stats": m["stats"], "pinned_counterexample_steps": len(pinned["trace"])}


def c14_scenarios(scripts, seed, quick, call, scn):
    rnd = random.Random(seed)
    # 1xx statuses are interim responses in HTTP/1.1: neither hyper's server nor reqwest's client can
    # carry one as the final answer of an exchange, so scripts containing them cannot be played
    # (the model keeps 102 in the accepted set, as the contract says).
    scripts = [s for s in scripts if not any(100 <= o < 200 for v in s.values() for o in v)]
    uniq = sorted({json.dumps(s, sort_keys=True) for s in scripts})
    rnd.shuffle(uniq)
    chosen = uniq[:60] if quick else uniq[:2500]
    out = []
    meta_extra = {"clock": "real", "push": True, "push_interval_ms": 20}

    def finish(s, push=True):
        s["phase"] = None
        s["meta"].update(meta_extra)
        s["meta"]["push"] = push
        out.append(s)

    for i, sj in enumerate(chosen):
        script = json.loads(sj)
        n_posts = sum(len(v) for v in script.values())
        steps = [{"do": "endpoint", "script": {k: ["close" if o == 0 else o for o in v] for k, v in script.items()}, "default": [200]},
                 call(1, op="CreateTopic", name=T1),
                 call(1, op="CreateSub", name=S1, topic=T1, ack=10, push="$EP"),
                 call(1, op="CreateSub", name=S2, topic=T1, ack=10),            # a subscription without push
                 call(1, op="Publish", topic=T1, msgs=[{"p": "pa"}, {"p": "pb"}]),
                 {"do": "waithttp", "n": n_posts, "ms": 4000},
                 {"do": "advance", "ms": 150},                                      # silence: several push rounds
                 call(2, op="Pull", sub=S1, max=10, ri=True),
                 call(2, op="Pull", sub=S2, max=10, ri=True),
                 call(2, op="Ack", sub=S2, acks=[{"d": 1}, {"d": 2}]),
                 call(1, op="DeleteSub", name=S1),
                 call(1, op="Publish", topic=T1, msgs=[{"p": "after-delete"}]),
                 {"do": "advance", "ms": 120},
                 call(2, op="Pull", sub=S2, max=10, ri=True),
                 call(2, op="Ack", sub=S2, acks=[{"d": 3}])]
        finish(scn("c14-%d" % i, steps, seed=seed * 1000 + i))
    # special payloads (attributes, binary, empty) through the push path
    steps = [{"do": "endpoint", "script": {}, "default": [500, 200]},
             call(1, op="CreateTopic", name=T1), call(1, op="CreateSub", name=S1, topic=T1, ack=10, push="$EP"),
             # (messages WITHOUT attributes in between and at the end: nothing of a neighbour sticks to them)
             call(1, op="Publish", topic=T1, msgs=[{"p": "attrs#1"}, {"p": "plain-1"}, {"p": "utf8#1"}, {"p": "bin#1"}, {"p": "plain-2"},
                                                   {"p": "empty#1"}, {"p": "ws#1"}, {"p": "plain-3"}]),
             {"do": "waithttp", "n": 16, "ms": 4000}, {"do": "advance", "ms": 150}]
    finish(scn("c14-payloads", steps, seed=seed))
    # no answer within the ack deadline for one message while its sibling is accepted at once: the
    # clock jumps across the deadline while the endpoint holds the open exchange
    for k in range(2 if quick else 6):
        steps = [{"do": "endpoint", "script": {"pa": ["hold", "hold", 200], "pb": [200]} if k % 2 == 0 else {"pb": ["hold", 200], "pa": [500, 204]},
                  "default": [200]},
                 call(1, op="CreateTopic", name=T1), call(1, op="CreateSub", name=S1, topic=T1, ack=10 + k, push="$EP"),
                 call(1, op="Publish", topic=T1, msgs=[{"p": "pa"}, {"p": "pb"}]),
                 {"do": "waithttp", "n": 2, "ms": 4000}, {"do": "advance", "ms": 100},
                 {"do": "pause"}, {"do": "jump", "ms": 11000 + 1000 * k}, {"do": "resume"},
                 {"do": "advance", "ms": 300},
                 {"do": "pause"}, {"do": "jump", "ms": 11000 + 1000 * k}, {"do": "resume"},
                 {"do": "advance", "ms": 300}]
        finish(scn("c14-slow-%d" % k, steps, seed=seed + k), push=False)
    # an endpoint that accepts slowly, but within a deadline that is longer than the default one:
    # nothing has failed, so the message is not POSTed again; and one whose (accepting) answer
    # comes after the deadline: POSTed again
    for k in range(2 if quick else 6):
        ack = (30, 60, 20, 45, 120, 600)[k]
        delay = (12000, 25000, 10500, 30000, 100000, 400000)[k]
        steps = [{"do": "endpoint", "script": {"pa": [{"delay": delay, "status": (200, 204, 201)[k % 3]}], "pb": [200]}, "default": [200]},
                 call(1, op="CreateTopic", name=T1), call(1, op="CreateSub", name=S1, topic=T1, ack=ack, push="$EP"),
                 call(1, op="Publish", topic=T1, msgs=[{"p": "pa"}, {"p": "pb"}]),
                 {"do": "waithttp", "n": 2, "ms": 4000}, {"do": "advance", "ms": 100}]
        # in steps of 2 s of virtual time up to the answer and beyond the deadline
        t = 0
        while t < ack * 1000 + 3000:
            step = 2000 if t < 40000 else 20000
            steps += [{"do": "pause"}, {"do": "jump", "ms": step}, {"do": "resume"}, {"do": "advance", "ms": 60}]
            t += step
        steps += [{"do": "advance", "ms": 200}]
        finish(scn("c14-slowok-%d" % k, steps, seed=seed + k))
    for k in range(1 if quick else 3):
        ack = (10, 12, 20)[k]
        steps = [{"do": "endpoint", "script": {"pa": [{"delay": ack * 1000 + 4000, "status": 200}, 200], "pb": [200]}, "default": [200]},
                 call(1, op="CreateTopic", name=T1), call(1, op="CreateSub", name=S1, topic=T1, ack=ack, push="$EP"),
                 call(1, op="Publish", topic=T1, msgs=[{"p": "pa"}, {"p": "pb"}]),
                 {"do": "waithttp", "n": 2, "ms": 4000}, {"do": "advance", "ms": 100}]
        for j in range(ack // 2 + 5):
            steps += [{"do": "pause"}, {"do": "jump", "ms": 2000}, {"do": "resume"}, {"do": "advance", "ms": 60}]
        steps += [{"do": "advance", "ms": 200}]
        finish(scn("c14-slowlate-%d" % k, steps, seed=seed + k), push=False)
    # a push subscription is deleted and created again under the same name between two push rounds
    # (the clock stands still meanwhile): the new incarnation is pushed to like any other, the old
    # one's outstanding message is not POSTed again
    for k in range(3 if quick else 12):
        steps = [{"do": "endpoint", "script": {"pa": [200] if k % 3 else [500, 500, 500, 500, 500, 500]}, "default": [200]},
                 call(1, op="CreateTopic", name=T1), call(1, op="CreateSub", name=S1, topic=T1, ack=10, push="$EP"),
                 call(1, op="Publish", topic=T1, msgs=[{"p": "pa"}]),
                 {"do": "waithttp", "n": 1, "ms": 4000}, {"do": "advance", "ms": 60 + 20 * (k % 3)},
                 {"do": "pause"},
                 call(1, op="DeleteSub", name=S1)]
        if k % 2:
            steps.append(call(1, op="CreateSub", name=S2, topic=T1, ack=10, push="$EP"))
        steps += [call(1, op="CreateSub", name=S1, topic=T1, ack=10 + k, push="$EP"),
                  {"do": "resume"},
                  call(1, op="Publish", topic=T1, msgs=[{"p": "pb"}, {"p": "pc"}]),
                  {"do": "waithttp", "n": 20, "ms": 1500}, {"do": "advance", "ms": 200}]
        finish(scn("c14-recreate-%d" % k, steps, seed=seed + k))
    # requests that are REFUSED while a push subscription of that name is live (a duplicate create, a
    # create on a topic of another project, with and without push configuration of their own) leave
    # its push delivery alone: the message the endpoint refused is POSTed again and accepted
    for k in range(3 if quick else 6):
        TP = "projects/p2/topics/t3"
        refused = [call(2, op="CreateSub", name=S1, topic=T1, ack=10),
                   call(2, op="CreateSub", name=S1, topic=T1, ack=20, push="$EP"),
                   call(2, op="CreateSub", name=S1, topic=TP, ack=10, push="$EP"),
                   call(2, op="CreateSub", name=S1, topic="projects/p1/topics/none", ack=10, push="$EP")]
        steps = [{"do": "endpoint", "script": {"pa": [500, 500, 500, 200]}, "default": [200]},
                 call(1, op="CreateTopic", name=T1), call(1, op="CreateTopic", name=TP),
                 call(1, op="CreateSub", name=S1, topic=T1, ack=10, push="$EP"),
                 call(1, op="Publish", topic=T1, msgs=[{"p": "pa"}]),
                 {"do": "waithttp", "n": 1, "ms": 4000}]
        steps += refused[k % 4:] + refused[:k % 4]
        steps += [call(1, op="Publish", topic=T1, msgs=[{"p": "pb"}]),
                  {"do": "waithttp", "n": 5, "ms": 4000}, {"do": "advance", "ms": 150}]
        s2 = scn("c14-refused-%d" % k, steps, seed=seed + k)
        s2["meta"]["proj"][TP] = "p2"
        finish(s2)
    # a push subscription that outlives its topic is deleted, and its name is used again (as a pull
    # subscription, or with push): nothing of the first incarnation's registration survives
    for k in range(2 if quick else 6):
        steps = [{"do": "endpoint", "script": {}, "default": [200]},
                 call(1, op="CreateTopic", name=T1), call(1, op="CreateSub", name=S1, topic=T1, ack=10, push="$EP"),
                 call(1, op="Publish", topic=T1, msgs=[{"p": "pa"}]), {"do": "waithttp", "n": 1, "ms": 4000},
                 call(1, op="DeleteTopic", name=T1), {"do": "advance", "ms": 60},
                 call(1, op="DeleteSub", name=S1), {"do": "advance", "ms": 60},
                 call(1, op="CreateTopic", name=T1 if k % 2 else "projects/p1/topics/t2")]
        topic2 = T1 if k % 2 else "projects/p1/topics/t2"
        steps += [call(1, op="CreateSub", name=S1, topic=topic2, ack=10, **({"push": "$EP"} if k % 3 == 2 else {})),
                  call(1, op="Publish", topic=topic2, msgs=[{"p": "pb"}]),
                  {"do": "advance", "ms": 250},
                  call(2, op="Pull", sub=S1, max=10, ri=True)]
        finish(scn("c14-orphan-del-%d" % k, steps, seed=seed + k), push=(k % 3 == 2))
    # a whole page of messages for an endpoint that keeps every request open, and the subscription
    # is deleted as soon as the first POST has arrived: pushing stops
    for k in range(1 if quick else 3):
        steps = [{"do": "endpoint", "script": {}, "default": ["hold"]},
                 call(1, op="CreateTopic", name=T1), call(1, op="CreateSub", name=S1, topic=T1, ack=10, push="$EP"),
                 call(1, op="Publish", topic=T1, msgs=[{"p": "bulk:%d" % (150 + 50 * k)}]),
                 {"do": "waithttp", "n": 1 + k, "ms": 4000},
                 call(1, op="DeleteSub", name=S1), {"do": "advance", "ms": 1200}]
        finish(scn("c14-delete-midround-%d" % k, steps, seed=seed + k), push=False)
    # a push subscription that outlives its topic keeps being pushed what it holds: the endpoint
    # refuses at first, the topic is deleted, then the endpoint accepts
    for k in range(2 if quick else 6):
        steps = [{"do": "endpoint", "script": {"pa": [500, 500, 500, 500, 200], "pb": ["close", 503, 204]}, "default": [200]},
                 call(1, op="CreateTopic", name=T1), call(1, op="CreateSub", name=S1, topic=T1, ack=10, push="$EP"),
                 call(1, op="Publish", topic=T1, msgs=[{"p": "pa"}, {"p": "pb"}]),
                 {"do": "waithttp", "n": 1 + k % 3, "ms": 4000},
                 call(1, op="DeleteTopic", name=T1),
                 {"do": "waithttp", "n": 8, "ms": 4000}, {"do": "advance", "ms": 150},
                 call(1, op="GetSub", name=S1)]
        finish(scn("c14-orphan-push-%d" % k, steps, seed=seed + k))
    # endpoints that pass the "starts with http" test but are no URLs: the subscription may never
    # be pushed to, but neither the push loop nor the server may die of it (C17)
    weird = ["http://", "https://", "httpfoo", "http://exa mple", "http:///x", "http://[::1", "HTTP://127.0.0.1:9/x", "http://127.0.0.1:99999/"]
    steps = [{"do": "endpoint", "script": {}, "default": [200]},
             call(1, op="CreateTopic", name=T1), call(1, op="CreateSub", name=S1, topic=T1, ack=10, push="$EP")]
    for j, w in enumerate(weird if not quick else weird[:5]):
        steps.append(call(2, op="CreateSub", name="projects/p1/subscriptions/s%d" % (j + 10), topic=T1, ack=10, push=w))
    steps += [call(1, op="Publish", topic=T1, msgs=[{"p": "pa"}]), {"do": "waithttp", "n": 1, "ms": 4000}, {"do": "advance", "ms": 200},
              call(1, op="Publish", topic=T1, msgs=[{"p": "pb"}]), {"do": "waithttp", "n": 2, "ms": 4000}, {"do": "advance", "ms": 100},
              call(1, op="GetTopic", name=T1)]
    s3 = scn("c14-weird-endpoints", steps, seed=seed)
    for j in range(len(weird)):
        s3["meta"]["proj"]["projects/p1/subscriptions/s%d" % (j + 10)] = "p1"
    finish(s3, push=False)
    # several push subscriptions on ONE topic, each with an endpoint of its own (and one pulled
    # sibling): every message is POSTed once per subscription, to that subscription's endpoint,
    # naming that subscription - first refused, then accepted
    for k in range(2 if quick else 8):
        names = [S1, S2, "projects/p1/subscriptions/s3"][:2 + k % 2]
        eps = ["$EP/a", "$EP", "$EP/c/d"]
        steps = [{"do": "endpoint", "script": {}, "default": [[500, 200], [200], [503, 404, 204]][k % 3]},
                 call(1, op="CreateTopic", name=T1)]
        for j, nm in enumerate(names):
            steps.append(call(1, op="CreateSub", name=nm, topic=T1, ack=10, push=eps[(j + k) % 3]))
        steps.append(call(1, op="CreateSub", name="projects/p1/subscriptions/s4", topic=T1, ack=10))
        n_msgs = 1 + k % 3
        steps.append(call(1, op="Publish", topic=T1, msgs=[{"p": "tw%d-%d" % (k, j)} for j in range(n_msgs)]))
        per = len([[500, 200], [200], [503, 404, 204]][k % 3])
        steps += [{"do": "waithttp", "n": per * n_msgs * len(names), "ms": 6000}, {"do": "advance", "ms": 150}]
        steps += [call(2, op="Pull", sub=nm, max=10, ri=True) for nm in names]
        steps += [call(2, op="Pull", sub="projects/p1/subscriptions/s4", max=10, ri=True)]
        finish(scn("c14-twins-%d" % k, steps, seed=seed + k))
    # an endpoint on which nothing listens, and an unsupported endpoint
    steps = [{"do": "endpoint", "script": {}, "default": [200]},
             call(1, op="CreateTopic", name=T1), call(1, op="CreateSub", name=S1, topic=T1, ack=10, push="$DEAD"),
             call(1, op="CreateSub", name=S2, topic=T1, ack=10, push="ftp://nowhere"),
             call(1, op="Publish", topic=T1, msgs=[{"p": "pa"}]),
             {"do": "advance", "ms": 200},
             call(1, op="DeleteSub", name=S1), {"do": "advance", "ms": 100}]
    finish(scn("c14-dead", steps, seed=seed), push=False)
    return out


def plan_c14(prop, tier, seed, t0):
    import plans
    quick = tier == "quick"
    work = os.path.join(V.WORK, prop)
    shutil.rmtree(work, ignore_errors=True)
    os.makedirs(work)
    build_s = V.build_harness()
    violations = []
    r = c14_mc(work, quick, violations)
    scenarios = c14_scenarios(r["scripts"], seed, quick, plans.call, plans.scn)
    scn_path = os.path.join(work, "scenarios.ndjson")
    V.write_scenarios(scn_path, scenarios)
    traces = V.dvh_replay(scn_path, os.path.join(work, "replay"), 8)
    # the push registry against create / delete races of one name: multi-threaded runs in which the
    # deleting actor is held in the window next to its registry removal (sync point s.del.registry)
    # while another client creates the name again
    n_reg = 60 if quick else 3000
    traces += V.dvh_explore("mt:regrace", seed * 100000, seed * 100000 + n_reg, os.path.join(work, "regrace"), 2 if quick else 8)
    reg = registry_mc(work, quick, violations)
    r["stats"] = {k: r["stats"][k] + reg["stats"][k] for k in r["stats"]}
    results = V.validate_traces(traces, work, parallel=8)
    return plans.finish(prop, tier, seed, t0, work, {"stats": r["stats"]}, scenarios, traces, results, violations, len(r["scripts"]), build_s,
                        "push scenarios run under the real clock (real sockets on loopback): lateness is not judged there; "
                        "the 'no answer within the ack deadline' outcome is not exercised")
