---------------------------- MODULE FlowControl ----------------------------
(***************************************************************************)
(* subscriptions/flow_control.rs at statement granularity: two atomic      *)
(* counters, one tokio Notify, `wait_for_available_space`, `inc`, `dec`.    *)
(*                                                                         *)
(*   wait_for_available_space:                                             *)
(*     c1m/c1b  if has_available_space() { return }   (load messages, load bytes) *)
(*     loop {                                                              *)
(*     mk       let notified = notifier.notified();   (remembers the notify_waiters counter) *)
(*     c2m/c2b  if has_available_space() { return }                        *)
(*     aw       notified.await                        (ready if the counter moved, else park) *)
(*     }                                                                   *)
(*   inc / dec:  ab: fetch_add/sub bytes;  am: fetch_add/sub messages;  nw: notify_waiters *)
(*                                                                         *)
(* Switch NotifiedAfterCheck moves `mk` behind the re-check (a design      *)
(* mutation: it must break C19_NoMiss).  Switch NotifyOneInsteadOfWaiters  *)
(* replaces notify_waiters by notify_one.                                  *)
(***************************************************************************)
EXTENDS Integers, Sequences, FiniteSets, TLC, Json

CONSTANTS
    Waiters,        \* waiter process ids
    Mutators,       \* mutator process ids
    Script,         \* Mutators -> sequence of [op |-> "inc"|"dec", b |-> bytes delta, m |-> messages delta]
    MaxBytes, MaxMsgs,
    InitBytes, InitMsgs,
    NotifiedAfterCheck,
    NotifyOneInsteadOfWaiters

VARIABLES
    bytes, msgs,    \* the two counters
    gen,            \* notify_waiters call counter
    permit,         \* stored notify_one permit
    parked,         \* sequence of waiters parked in the Notify (FIFO)
    pc,             \* program counter per process
    sgen,           \* the counter value a waiter's Notified future remembers
    sst,            \* state of a waiter's Notified future: "none" | "init" | "waiting" | "released"
    obsM, obsB,     \* what a waiter last observed
    ip,             \* Mutators -> index of the current script operation
    hist            \* ghost: the steps taken (not part of the VIEW)

vars == <<bytes, msgs, gen, permit, parked, pc, sgen, sst, obsM, obsB, ip, hist>>
View == <<bytes, msgs, gen, permit, parked, pc, sgen, sst, obsM, obsB, ip>>

Init ==
    /\ bytes = InitBytes /\ msgs = InitMsgs
    /\ gen = 0 /\ permit = FALSE /\ parked = <<>>
    /\ pc = [p \in Waiters \cup Mutators |-> IF p \in Waiters THEN "c1m" ELSE "ab"]
    /\ sgen = [w \in Waiters |-> 0] /\ sst = [w \in Waiters |-> "none"]
    /\ obsM = [w \in Waiters |-> -1] /\ obsB = [w \in Waiters |-> -1]
    /\ ip = [m \in Mutators |-> 1]
    /\ hist = <<>>

Log(p, label) == hist' = Append(hist, <<p, label>>)

(***************************************************************************)
(* Waiter steps.                                                           *)
(***************************************************************************)
LoadMsgs(w, here, below, notbelow) ==
    /\ pc[w] = here
    /\ obsM' = [obsM EXCEPT ![w] = msgs]
    /\ pc' = [pc EXCEPT ![w] = IF msgs >= MaxMsgs THEN notbelow ELSE below]
    /\ Log(w, here)
    /\ UNCHANGED <<bytes, msgs, gen, permit, parked, sgen, sst, obsB, ip>>

LoadBytes(w, here, below, notbelow) ==
    /\ pc[w] = here
    /\ obsB' = [obsB EXCEPT ![w] = bytes]
    /\ pc' = [pc EXCEPT ![w] = IF bytes >= MaxBytes THEN notbelow ELSE below]
    /\ Log(w, here)
    /\ UNCHANGED <<bytes, msgs, gen, permit, parked, sgen, sst, obsM, ip>>

MakeNotified(w) ==
    /\ pc[w] = "mk"
    /\ sgen' = [sgen EXCEPT ![w] = gen]
    /\ sst' = [sst EXCEPT ![w] = "init"]
    /\ pc' = [pc EXCEPT ![w] = IF NotifiedAfterCheck THEN "aw" ELSE "c2m"]
    /\ Log(w, "mk")
    /\ UNCHANGED <<bytes, msgs, gen, permit, parked, obsM, obsB, ip>>

\* First poll of `notified.await`.
Await(w) ==
    /\ pc[w] = "aw" /\ sst[w] = "init"
    /\ IF permit
       THEN \* a stored permit is tried first
            /\ permit' = FALSE
            /\ pc' = [pc EXCEPT ![w] = IF NotifiedAfterCheck THEN "c2m" ELSE "mk"]
            /\ sst' = [sst EXCEPT ![w] = "none"] /\ UNCHANGED parked
       ELSE IF sgen[w] # gen
       THEN /\ pc' = [pc EXCEPT ![w] = IF NotifiedAfterCheck THEN "c2m" ELSE "mk"]
            /\ sst' = [sst EXCEPT ![w] = "none"] /\ UNCHANGED <<parked, permit>>
       ELSE /\ parked' = Append(parked, w)
            /\ sst' = [sst EXCEPT ![w] = "waiting"]
            /\ pc' = [pc EXCEPT ![w] = "parked"] /\ UNCHANGED permit
    /\ Log(w, "aw")
    /\ UNCHANGED <<bytes, msgs, gen, sgen, obsM, obsB, ip>>

\* A released waiter is polled again and goes round the loop.
Resume(w) ==
    /\ pc[w] = "parked" /\ sst[w] = "released"
    /\ sst' = [sst EXCEPT ![w] = "none"]
    /\ pc' = [pc EXCEPT ![w] = IF NotifiedAfterCheck THEN "c2m" ELSE "mk"]
    /\ Log(w, "resume")
    /\ UNCHANGED <<bytes, msgs, gen, permit, parked, sgen, obsM, obsB, ip>>

WaiterStep(w) ==
    \/ LoadMsgs(w, "c1m", "c1b", IF NotifiedAfterCheck THEN "c2m" ELSE "mk")
    \/ LoadBytes(w, "c1b", "done", IF NotifiedAfterCheck THEN "c2m" ELSE "mk")
    \/ MakeNotified(w)
    \/ LoadMsgs(w, "c2m", "c2b", IF NotifiedAfterCheck THEN "mk" ELSE "aw")
    \/ LoadBytes(w, "c2b", "done", IF NotifiedAfterCheck THEN "mk" ELSE "aw")
    \/ Await(w)
    \/ Resume(w)

(***************************************************************************)
(* Mutator steps.                                                          *)
(***************************************************************************)
Op(m) == Script[m][ip[m]]
Sign(m) == IF Op(m).op = "inc" THEN 1 ELSE -1

AddBytes(m) ==
    /\ pc[m] = "ab" /\ ip[m] <= Len(Script[m])
    /\ bytes' = bytes + Sign(m) * Op(m).b
    /\ pc' = [pc EXCEPT ![m] = "am"]
    /\ Log(m, "ab")
    /\ UNCHANGED <<msgs, gen, permit, parked, sgen, sst, obsM, obsB, ip>>

AddMsgs(m) ==
    /\ pc[m] = "am"
    /\ msgs' = msgs + Sign(m) * Op(m).m
    /\ pc' = [pc EXCEPT ![m] = "nw"]
    /\ Log(m, "am")
    /\ UNCHANGED <<bytes, gen, permit, parked, sgen, sst, obsM, obsB, ip>>

Notify(m) ==
    /\ pc[m] = "nw"
    /\ IF NotifyOneInsteadOfWaiters
       THEN IF parked # <<>>
            THEN /\ sst' = [sst EXCEPT ![Head(parked)] = "released"] /\ parked' = Tail(parked)
                 /\ UNCHANGED <<gen, permit>>
            ELSE /\ permit' = TRUE /\ UNCHANGED <<gen, parked, sst>>
       ELSE /\ gen' = gen + 1
            /\ sst' = [w \in Waiters |-> IF \E i \in 1..Len(parked) : parked[i] = w THEN "released" ELSE sst[w]]
            /\ parked' = <<>>
            /\ UNCHANGED permit
    /\ ip' = [ip EXCEPT ![m] = @ + 1]
    /\ pc' = [pc EXCEPT ![m] = IF ip[m] + 1 <= Len(Script[m]) THEN "ab" ELSE "end"]
    /\ Log(m, "nw")
    /\ UNCHANGED <<bytes, msgs, sgen, obsM, obsB>>

MutatorStep(m) == AddBytes(m) \/ AddMsgs(m) \/ Notify(m)

Next == (\E w \in Waiters : WaiterStep(w)) \/ (\E m \in Mutators : MutatorStep(m))

\* Counters never go negative in a sensible script (scripts are chosen accordingly).
Spec == Init /\ [][Next]_vars /\ \A w \in Waiters : WF_vars(WaiterStep(w))

(***************************************************************************)
(* Properties.                                                             *)
(***************************************************************************)
MutatorsDone == \A m \in Mutators : pc[m] = "end" \/ Len(Script[m]) = 0
Below == msgs < MaxMsgs /\ bytes < MaxBytes
WaitersQuiet == \A w \in Waiters : ~ENABLED WaiterStep(w)

\* C19: once all changes are done and both counts are below their limits, no waiter is left waiting.
C19_NoMiss == (MutatorsDone /\ Below /\ WaitersQuiet) => \A w \in Waiters : pc[w] = "done"

\* C19: a waiter only resumes after having observed both counts below their limits.
C19_Sound == \A w \in Waiters : pc[w] = "done" => (obsM[w] >= 0 /\ obsM[w] < MaxMsgs /\ obsB[w] >= 0 /\ obsB[w] < MaxBytes)

\* C19 (liveness form): with fair waiters, a state in which the changes are done and capacity is
\* free leads to every waiter having resumed.
C19_AllWoken == (MutatorsDone /\ Below) ~> (\A w \in Waiters : pc[w] = "done")

TypeOK == bytes >= 0 /\ msgs >= 0

\* For schedule generation: print the history of every terminal state.
Terminal == MutatorsDone /\ WaitersQuiet
EmitSched == Terminal => PrintT(<<"SCHED", ToJson(hist)>>)
=============================================================================
