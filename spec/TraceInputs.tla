---------------------------- MODULE TraceInputs ----------------------------
(***************************************************************************)
(* Validates recorded calls of the public name parsers                     *)
(* (TopicName::try_parse / SubscriptionName::try_parse and their Display)  *)
(* against the reference grammar of Inputs.tla: one `parse` event per call.*)
(***************************************************************************)
EXTENDS Inputs, IOUtils

Rec == ndJsonDeserialize(IOEnv.TRACE)

VARIABLES l, bad
tvars == <<l, bad, case>>

TraceInit == l = 1 /\ bad = 0 /\ case = [s1 |-> <<>>, p |-> <<>>, s2 |-> <<>>, id |-> <<>>]

Failed(gs) == {g[1] : g \in {x \in gs : ~x[2]}}

TraceNext ==
    /\ l <= Len(Rec)
    /\ l' = l + 1
    /\ UNCHANGED case
    /\ LET e == Rec[l] IN
       IF e.k # "parse" THEN UNCHANGED bad
       ELSE LET f == Failed(ParseGuards(e)) IN
            IF f = {} THEN UNCHANGED bad
            ELSE /\ PrintT(<<"VIOL", ToJson([run |-> "parse", i |-> e.i, k |-> e.k, line |-> l, props |-> f, fn |-> e.fn, str |-> e.str])>>)
                 /\ bad' = bad + 1

TraceSpec == TraceInit /\ [][TraceNext]_tvars

TraceAccepted ==
    LET d == TLCGet("stats").diameter IN
    IF d = Len(Rec) + 1 THEN TRUE
    ELSE /\ PrintT(<<"STUCK", ToJson([line |-> d])>>) /\ FALSE

Summary == (l = Len(Rec) + 1) => PrintT(<<"SUMMARY", ToJson([ok |-> Len(Rec) - bad, bad |-> bad, drift |-> 0])>>)
=============================================================================
