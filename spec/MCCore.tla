------------------------------- MODULE MCCore -------------------------------
(***************************************************************************)
(* Sequential API model: every client operation is the ATOMIC composition  *)
(* of the critical sections it runs through in the implementation, written *)
(* with the same per-subscription transition functions as PubSubCore.      *)
(*                                                                         *)
(* TLC (i) checks the core invariants over all operation sequences within  *)
(* the bounds of the configuration and (ii) emits every (state, operation) *)
(* edge of the reachable graph together with a shortest operation history  *)
(* that reaches the state: each printed line is one scenario for the       *)
(* harness (`dvh replay`).                                                 *)
(***************************************************************************)
EXTENDS PubSubCore, Json

CONSTANTS
    TopicNames,     \* e.g. {"projects/p1/topics/t1", ...}
    SubNames,
    P2Names,        \* the names (of either kind) that live in project "p2"
    AckSecs,        \* ack_deadline_seconds offered to CreateSubscription
    ModSecs,        \* seconds offered to ModifyAckDeadline
    PubSizes,       \* batch sizes offered to Publish
    PullMaxes,      \* max_messages offered to Pull
    Advances,       \* clock steps offered to Advance
    AckRefs,        \* delivery numbers that Ack / ModAck may name (includes stale / unknown)
    WalkSizes,      \* page sizes offered to the list walks ({} = no listing operations)
    Reads,          \* TRUE: Get* operations are part of the alphabet
    OpKinds,        \* the operation names that are part of the alphabet
    Negatives,      \* TRUE: -1 is added to ModSecs and to a non-empty WalkSizes (cfg files cannot spell -1)
    MaxOps,         \* bound on the length of a history
    MaxNow,         \* bound on the clock
    MaxMsgs,        \* bound on messages published in a history
    Emit            \* TRUE: print one EDGE line per (state, operation)

VARIABLES
    hist            \* the operations so far (not part of the VIEW)

vars == <<coreVars, hist>>
View == coreVars

ProjOf == [n \in TopicNames \cup SubNames |-> IF n \in P2Names THEN "p2" ELSE "p1"]

NewTi == Len(torder) + 2       \* the implementation's first internal id is 2
NewSi == Len(sorder) + 2

\* Leases of s due at or before t, as a sequence in (dl, ack) order.
RECURSIVE SortDue(_, _)
SortDue(s, due) ==
    IF due = {} THEN <<>>
    ELSE LET a == CHOOSE x \in due : \A y \in due :
                     s.lease[x].dl < s.lease[y].dl \/ (s.lease[x].dl = s.lease[y].dl /\ x <= y)
         IN <<a>> \o SortDue(s, due \ {a})

SubExpireUpTo(s, t) ==
    IF s.st # "live" THEN s
    ELSE LET due == {a \in DOMAIN s.lease : s.lease[a].dl <= t}
         IN IF due = {} THEN s ELSE SubAfterExpire(s, SortDue(s, due))

ExpireAllUpTo(t) == [si \in DOMAIN S |-> SubExpireUpTo(S[si], t)]

\* The deliveries a pull hands out: the front of the queue, fresh ack ids, exact deadlines.
PullOut(s, max, t) ==
    LET n == Min2(IF max >= 1 THEN max ELSE 0, Len(s.queue))
        base == Cardinality(s.used)
    IN [i \in 1..n |-> [ack |-> base + i, m |-> s.queue[i], dl |-> t + s.D]]

(***************************************************************************)
(* API operations.                                                         *)
(***************************************************************************)
ApiCreateTopic(n) ==
    /\ MgrCreateTopic(n, NewTi, n \notin DOMAIN tmap)

ApiDeleteTopic(n) ==
    IF n \in DOMAIN tmap
    THEN /\ LET ti == tmap[n] IN
            /\ T' = [T EXCEPT ![ti].deleted = TRUE, ![ti].att = Empty]
            /\ tmap' = Without(tmap, n)
         /\ UNCHANGED <<now, smap, S, torder, sorder, reg, pubs>>
    ELSE UNCHANGED coreVars       \* NOT_FOUND

ApiCreateSub(n, tn, secs) ==
    IF tn \in DOMAIN tmap /\ ProjOf[n] = ProjOf[tn] /\ n \notin DOMAIN smap
    THEN /\ LET ti == tmap[tn]
                si == NewSi IN
            /\ smap' = Put(smap, n, si)
            /\ S' = Put(S, si, NewSub(n, ti, EffDeadline(secs), ""))
            /\ sorder' = Append(sorder, si)
            /\ T' = [T EXCEPT ![ti].att = PutIfAbsent(@, n, si)]
         /\ UNCHANGED <<now, tmap, torder, reg, pubs>>
    ELSE UNCHANGED coreVars       \* NOT_FOUND / INVALID_ARGUMENT / ALREADY_EXISTS

ApiDeleteSub(n) ==
    IF n \in DOMAIN smap
    THEN /\ LET si == smap[n]
                ti == S[si].topic IN
            /\ S' = [S EXCEPT ![si].st = "deleted", ![si].queue = <<>>, ![si].lease = Empty, ![si].exited = TRUE]
            /\ T' = IF TopicBound(ti) /\ n \in DOMAIN T[ti].att
                    THEN [T EXCEPT ![ti].att = Without(@, n)] ELSE T
            /\ smap' = Without(smap, n)
         /\ UNCHANGED <<now, tmap, torder, sorder, reg, pubs>>
    ELSE UNCHANGED coreVars

ApiPublish(tn, k) ==
    /\ Cardinality(DOMAIN pubs) + k <= MaxMsgs
    /\ IF tn \notin DOMAIN tmap THEN UNCHANGED coreVars ELSE
       LET ti  == tmap[tn]
           ids == [i \in 1..k |-> <<ti, T[ti].last[2] + i>>]
           fan == Rng(T[ti].att) IN
       /\ T' = [T EXCEPT ![ti].last = ids[k]]
       /\ S' = [si \in DOMAIN S |-> IF si \in fan THEN SubAfterPost(S[si], ids) ELSE S[si]]
       /\ pubs' = [m \in (DOMAIN pubs) \cup SeqSet(ids) |->
                     IF m \in DOMAIN pubs THEN pubs[m]
                     ELSE [ti |-> ti, seq |-> Cardinality(DOMAIN pubs) + IndexIn(ids, m)]]
       /\ UNCHANGED <<now, tmap, smap, torder, sorder, reg>>

\* A pull with return_immediately.
ApiPull(n, max) ==
    IF n \in DOMAIN smap
    THEN /\ LET si  == smap[n]
                out == PullOut(S[si], max, now) IN
            /\ S' = [S EXCEPT ![si] = SubAfterPull(@, out, SubSeq(@.queue, Len(out) + 1, Len(@.queue)), now)]
         /\ UNCHANGED <<now, tmap, smap, T, torder, sorder, reg, pubs>>
    ELSE UNCHANGED coreVars

ApiAck(n, acks) ==
    IF n \in DOMAIN smap
    THEN /\ S' = [S EXCEPT ![smap[n]] = SubAfterAck(@, acks)]
         /\ UNCHANGED <<now, tmap, smap, T, torder, sorder, reg, pubs>>
    ELSE UNCHANGED coreVars

ApiModAck(n, acks, secs) ==
    IF n \notin DOMAIN smap \/ secs < 0 THEN UNCHANGED coreVars ELSE
    /\ LET mods == [i \in 1..Len(acks) |->
                      [ack |-> acks[i],
                       dl |-> IF secs = 0 THEN None ELSE ModLo(now, secs),
                       lo |-> ModLo(now, secs), hi |-> ModHi(now, secs)]]
       IN S' = [S EXCEPT ![smap[n]] = SubAfterMods(@, mods)]
    /\ UNCHANGED <<now, tmap, smap, T, torder, sorder, reg, pubs>>

\* A blocking pull (no return_immediately): with an empty backlog it waits for the earliest
\* outstanding delivery of this subscription to expire and takes that.
ApiPullWait(n, max) ==
    /\ n \in DOMAIN smap
    /\ LET si == smap[n] IN
       IF S[si].queue # <<>> THEN ApiPull(n, max)
       ELSE /\ DOMAIN S[si].lease # {}
            /\ LET t  == CHOOSE d \in {S[si].lease[a].dl : a \in DOMAIN S[si].lease} :
                               \A a \in DOMAIN S[si].lease : d <= S[si].lease[a].dl
                   S1 == ExpireAllUpTo(t)
                   out == PullOut(S1[si], max, t) IN
               /\ t <= MaxNow
               /\ now' = t
               /\ S' = [S1 EXCEPT ![si] = SubAfterPull(@, out, SubSeq(@.queue, Len(out) + 1, Len(@.queue)), t)]
               /\ UNCHANGED <<tmap, smap, T, torder, sorder, reg, pubs>>

\* The clock advances by d; every delivery due on the way expires, in deadline order.
ApiAdvance(d) ==
    /\ now + d <= MaxNow
    /\ now' = now + d
    /\ S' = ExpireAllUpTo(now + d)
    /\ UNCHANGED <<tmap, smap, T, torder, sorder, reg, pubs>>

(***************************************************************************)
(* The operation alphabet.                                                 *)
(***************************************************************************)
ModSecsAll == ModSecs \cup (IF Negatives THEN {-1} ELSE {})
WalkSizesAll == WalkSizes \cup (IF Negatives /\ WalkSizes # {} THEN {-1} ELSE {})

AckSeqs == {<<a>> : a \in AckRefs} \cup {<<a, b>> : a \in AckRefs, b \in AckRefs}

AllOps ==
    {[op |-> "CreateTopic", name |-> n] : n \in TopicNames}
    \cup {[op |-> "DeleteTopic", name |-> n] : n \in TopicNames}
    \cup {[op |-> "CreateSub", name |-> n, topic |-> tn, ack |-> a] : n \in SubNames, tn \in TopicNames, a \in AckSecs}
    \cup {[op |-> "DeleteSub", name |-> n] : n \in SubNames}
    \cup {[op |-> "Publish", topic |-> tn, n |-> k] : tn \in TopicNames, k \in PubSizes}
    \cup {[op |-> "Pull", sub |-> n, max |-> m] : n \in SubNames, m \in PullMaxes}
    \cup {[op |-> "Ack", sub |-> n, acks |-> a] : n \in SubNames, a \in AckSeqs}
    \cup {[op |-> "ModAck", sub |-> n, acks |-> a, secs |-> s] : n \in SubNames, a \in AckSeqs, s \in ModSecsAll}
    \cup {[op |-> "Advance", d |-> d] : d \in Advances}
    \cup {[op |-> "PullWait", sub |-> n, max |-> m] : n \in SubNames, m \in PullMaxes}
    \cup (IF Reads THEN {[op |-> "GetTopic", name |-> n] : n \in TopicNames}
                         \cup {[op |-> "GetSub", name |-> n] : n \in SubNames} ELSE {})
    \cup {[op |-> "Walk", kind |-> "topics", arg |-> pr, size |-> z] : pr \in {"projects/p1", "projects/p2"}, z \in WalkSizesAll}
    \cup {[op |-> "Walk", kind |-> "subs", arg |-> pr, size |-> z] : pr \in {"projects/p1", "projects/p2"}, z \in WalkSizesAll}
    \cup {[op |-> "Walk", kind |-> "topicsubs", arg |-> tn, size |-> z] : tn \in TopicNames, z \in WalkSizesAll}

Ops == {o \in AllOps : o.op \in OpKinds}

\* Operations that change nothing and teach nothing are left out of the graph:
\* an ack / modify that names no outstanding delivery is kept only when it names
\* exactly one reference (the stale / unknown case), so the alphabet stays small.
Step(o) ==
    \/ o.op = "CreateTopic" /\ ApiCreateTopic(o.name)
    \/ o.op = "DeleteTopic" /\ ApiDeleteTopic(o.name)
    \/ o.op = "CreateSub"   /\ ApiCreateSub(o.name, o.topic, o.ack)
    \/ o.op = "DeleteSub"   /\ ApiDeleteSub(o.name)
    \/ o.op = "Publish"     /\ ApiPublish(o.topic, o.n)
    \/ o.op = "Pull"        /\ ApiPull(o.sub, o.max)
    \/ o.op = "Ack"         /\ ApiAck(o.sub, SeqSet(o.acks))
    \/ o.op = "ModAck"      /\ ApiModAck(o.sub, o.acks, o.secs)
    \/ o.op = "Advance"     /\ ApiAdvance(o.d)
    \/ o.op = "PullWait"    /\ ApiPullWait(o.sub, o.max)
    \/ o.op \in {"GetTopic", "GetSub", "Walk"} /\ UNCHANGED coreVars

Init == CoreInit /\ hist = <<>>

Next ==
    /\ Len(hist) < MaxOps
    /\ \E o \in Ops :
        /\ Step(o)
        /\ hist' = Append(hist, o)
        /\ (Emit => PrintT(<<"EDGE", ToJson([h |-> hist, o |-> o])>>))

Spec == Init /\ [][Next]_vars

(***************************************************************************)
(* Properties checked on every reachable state of the sequential model.    *)
(***************************************************************************)
Inv ==
    /\ CoreInvariants
    /\ C04_NotLate
    /\ C11_AttachedExact
    /\ C16_Attached

\* C02 as an action property: an acknowledged message stays acknowledged and held nowhere.
C02_Stable ==
    [][\A si \in DOMAIN S : si \in DOMAIN S' /\ S'[si].st = "live" =>
          S[si].acked \subseteq S'[si].acked]_vars

\* C03: ack ids are never reused (the used set only grows).
C03_Fresh ==
    [][\A si \in DOMAIN S : si \in DOMAIN S' => S[si].used \subseteq S'[si].used]_vars

\* C09 / C08: per topic, message numbers only grow.
C08_Monotone ==
    [][\A ti \in DOMAIN T : ti \in DOMAIN T' => ~MsgLess(T'[ti].last, T[ti].last)]_vars
=============================================================================
