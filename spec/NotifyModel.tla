---------------------------- MODULE NotifyModel ----------------------------
(***************************************************************************)
(* tokio::sync::Notify as read from tokio 1.40 and as used by the models   *)
(* DeltioActors and FlowControl: one stored permit, a FIFO list of waiting *)
(* futures, the notify_waiters call counter, forwarding of a notify_one    *)
(* wake-up when the chosen future is dropped before it was polled.         *)
(*                                                                         *)
(* TLC enumerates every operation sequence up to MaxOps over a few futures *)
(* and prints it with the result the model predicts for each poll; the     *)
(* harness (dvh notify) executes the sequence on a real Notify, polling by *)
(* hand, and TraceNotify compares.  This binds the abstraction of the      *)
(* primitive to the primitive itself.                                      *)
(***************************************************************************)
EXTENDS Integers, Sequences, FiniteSets, TLC, Json

CONSTANTS Futs, MaxOps

VARIABLES permit, waiters, gen, st, fgen, hist
vars == <<permit, waiters, gen, st, fgen, hist>>
View == <<permit, waiters, gen, st, fgen, Len(hist)>>

Init == /\ permit = FALSE /\ waiters = <<>> /\ gen = 0
        /\ st = [f \in Futs |-> "none"] /\ fgen = [f \in Futs |-> 0] /\ hist = <<>>

Log(op, f, r) == hist' = Append(hist, [op |-> op, f |-> f, r |-> r])
RemoveW(f) == SelectSeq(waiters, LAMBDA x : x # f)

Create(f) ==
    /\ st[f] = "none"
    /\ st' = [st EXCEPT ![f] = "init"] /\ fgen' = [fgen EXCEPT ![f] = gen]
    /\ Log("create", f, "-") /\ UNCHANGED <<permit, waiters, gen>>

Poll(f) ==
    /\ st[f] \in {"init", "waiting", "notified", "released"}
    /\ CASE st[f] = "init" /\ permit ->
              \* a stored permit is tried first (even if notify_waiters was called since the creation)
              st' = [st EXCEPT ![f] = "done"] /\ permit' = FALSE /\ Log("poll", f, "ready") /\ UNCHANGED waiters
         [] st[f] = "init" /\ ~permit /\ fgen[f] # gen ->
              st' = [st EXCEPT ![f] = "done"] /\ Log("poll", f, "ready") /\ UNCHANGED <<permit, waiters>>
         [] st[f] = "init" /\ fgen[f] = gen /\ ~permit ->
              st' = [st EXCEPT ![f] = "waiting"] /\ waiters' = Append(waiters, f) /\ Log("poll", f, "pending") /\ UNCHANGED permit
         [] st[f] = "waiting" ->
              Log("poll", f, "pending") /\ UNCHANGED <<st, permit, waiters>>
         [] st[f] \in {"notified", "released"} ->
              st' = [st EXCEPT ![f] = "done"] /\ Log("poll", f, "ready") /\ UNCHANGED <<permit, waiters>>
    /\ UNCHANGED <<gen, fgen>>

NotifyOne ==
    /\ IF waiters # <<>>
       THEN st' = [st EXCEPT ![Head(waiters)] = "notified"] /\ waiters' = Tail(waiters) /\ UNCHANGED permit
       ELSE permit' = TRUE /\ UNCHANGED <<st, waiters>>
    /\ Log("one", "-", "-") /\ UNCHANGED <<gen, fgen>>

NotifyWaiters ==
    /\ st' = [f \in Futs |-> IF \E i \in 1..Len(waiters) : waiters[i] = f THEN "released" ELSE st[f]]
    /\ waiters' = <<>> /\ gen' = gen + 1
    /\ Log("all", "-", "-") /\ UNCHANGED <<permit, fgen>>

Drop(f) ==
    /\ st[f] \in {"init", "waiting", "notified", "released", "done"}
    /\ CASE st[f] = "waiting" -> waiters' = RemoveW(f) /\ st' = [st EXCEPT ![f] = "none"] /\ UNCHANGED permit
         [] st[f] = "notified" ->
              \* the wake-up of notify_one is handed on
              IF waiters # <<>>
              THEN st' = [st EXCEPT ![f] = "none", ![Head(waiters)] = "notified"] /\ waiters' = Tail(waiters) /\ UNCHANGED permit
              ELSE st' = [st EXCEPT ![f] = "none"] /\ permit' = TRUE /\ UNCHANGED waiters
         [] OTHER -> st' = [st EXCEPT ![f] = "none"] /\ UNCHANGED <<permit, waiters>>
    /\ Log("drop", f, "-") /\ UNCHANGED <<gen, fgen>>

Next == /\ Len(hist) < MaxOps
        /\ \/ \E f \in Futs : Create(f) \/ Poll(f) \/ Drop(f)
           \/ NotifyOne \/ NotifyWaiters

Spec == Init /\ [][Next]_vars

\* structural sanity
TypeOK == /\ \A i, j \in 1..Len(waiters) : i # j => waiters[i] # waiters[j]
          /\ \A f \in Futs : (st[f] = "waiting") <=> (\E i \in 1..Len(waiters) : waiters[i] = f)

Emit == (Len(hist) = MaxOps) => PrintT(<<"SEQ", ToJson(hist)>>)
=============================================================================
