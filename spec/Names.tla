-------------------------------- MODULE Names --------------------------------
(***************************************************************************)
(* Reference grammar of the textual inputs of the API.  Strings are        *)
(* sequences of one-character strings (TLC has no string operators), so a  *)
(* resource name is e.g. <<"p","r","o","j","e","c","t","s","/","a",...>>.  *)
(*                                                                         *)
(* C18: a string is accepted as a topic name ONLY IF it is                 *)
(*   projects/ [project, non-empty, no slash] /topics/ [id, non-empty]     *)
(*      (likewise /subscriptions/); the canonical name echoed for an       *)
(*      accepted name is accepted and denotes the same resource; names     *)
(*      that differ in project or id denote different resources.           *)
(***************************************************************************)
EXTENDS Integers, Sequences, FiniteSets, TLC, Json

Chars(str) == str        \* documentation only: inputs already arrive as sequences

PRE == <<"p", "r", "o", "j", "e", "c", "t", "s", "/">>
TOP == <<"/", "t", "o", "p", "i", "c", "s", "/">>
SUB == <<"/", "s", "u", "b", "s", "c", "r", "i", "p", "t", "i", "o", "n", "s", "/">>

StartsWith(s, pre) == Len(s) >= Len(pre) /\ SubSeq(s, 1, Len(pre)) = pre
Drop(s, n) == SubSeq(s, n + 1, Len(s))
HasSlash(s) == \E i \in 1..Len(s) : s[i] = "/"
FirstSlash(s) == CHOOSE i \in 1..Len(s) : s[i] = "/" /\ \A j \in 1..(i - 1) : s[j] # "/"

\* The project part of a candidate name: what follows `projects/` up to the next slash.
RefProject(s) ==
    LET rest == Drop(s, Len(PRE)) IN
    IF StartsWith(s, PRE) /\ HasSlash(rest) THEN SubSeq(rest, 1, FirstSlash(rest) - 1) ELSE <<>>

\* What follows the project: must start with the literal segment; the remainder is the id.
RefTail(s) == Drop(s, Len(PRE) + Len(RefProject(s)))
RefId(s, seg) == IF StartsWith(RefTail(s), seg) THEN Drop(RefTail(s), Len(seg)) ELSE <<>>

IsName(s, seg) ==
    /\ StartsWith(s, PRE)
    /\ RefProject(s) # <<>>
    /\ StartsWith(RefTail(s), seg)
    /\ RefId(s, seg) # <<>>

IsTopicName(s) == IsName(s, TOP)
IsSubName(s) == IsName(s, SUB)
Canon(project, id, seg) == PRE \o project \o seg \o id

(***************************************************************************)
(* Guards on one recorded parse call:                                      *)
(*   e.fn \in {"topic","sub"}, e.input, e.ok, e.project, e.id (parsed),    *)
(*   e.echo (Display of the parsed name), e.echo_ok / e.echo_project /     *)
(*   e.echo_id (the echo parsed again).                                    *)
(***************************************************************************)
SegOf(fn) == IF fn = "topic" THEN TOP ELSE SUB

ParseGuards(e) ==
    LET seg == SegOf(e.fn) IN
    { \* accepted only if it has the required shape
      <<"C18", e.ok => IsName(e.input, seg)>>,
      \* ... and denotes the resource its project and id spell
      <<"C18", e.ok => (e.project = RefProject(e.input) /\ e.id = RefId(e.input, seg))>>,
      \* the canonical echo is the canonical spelling of that resource, is accepted, and
      \* denotes the same resource
      <<"C18", e.ok => e.echo = Canon(e.project, e.id, seg)>>,
      <<"C18", e.ok => (e.echo_ok /\ e.echo_project = e.project /\ e.echo_id = e.id)>>,
      \* a parser never panics (the harness records a panic as ok = "panic")
      <<"C17", e.ok \in BOOLEAN>> }
=============================================================================
