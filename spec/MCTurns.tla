------------------------------- MODULE MCTurns -------------------------------
(***************************************************************************)
(* Concurrent clients over the core contract, at the grain of actor turns  *)
(* and manager critical sections: every client operation is a PROCESS that *)
(* runs through the critical sections of PubSubCore one at a time, and the *)
(* steps of different processes interleave freely.  (Unlike MCCore, where  *)
(* an operation is one atomic step.)                                       *)
(*                                                                         *)
(*   CreateSub : lookup topic ; MgrInsertSub ; TopicAttach                  *)
(*   DeleteSub : lookup ; SubDeleteBegin ; TopicRemove ; MgrRemoveSub+End ; *)
(*               registry removal (by name; before or after MgrRemoveSub)  *)
(*   Publish   : lookup ; TopicAccept ; (SubPost per attached subscription, *)
(*               by the subscription actors, in mailbox order)             *)
(*   Pull/Ack  : lookup ; SubPull / SubAck                                  *)
(*   DeleteTopic : lookup ; TopicDelete + MgrRemoveTopic                    *)
(*                                                                         *)
(* Turn order is over-approximated (any enabled turn may be next), so every *)
(* schedule of the implementation - single- or multi-threaded - is covered.*)
(* Checked: the core invariants in every state, and at rest (all processes *)
(* finished, nothing in flight) the cross-resource consistency properties  *)
(* C11_AttachedExact / C16_Attached and C01's "nothing accepted is lost".  *)
(***************************************************************************)
EXTENDS PubSubCore

CONSTANTS
    Procs,      \* process ids
    Op,         \* Procs -> [op, name / topic / sub, ...]
    AtomicCreate,   \* TRUE: insert and attach of CreateSub are one step (a design WITHOUT the race)
    AtomicDelete,   \* TRUE: begin / remove / end of DeleteSub are one step
    AttachChecksDeleting,   \* TRUE: the topic refuses to attach a subscription that started being deleted
    UnregisterFirst,        \* TRUE: a deletion leaves the push registry BEFORE it leaves the manager's map
    MaxExpiries             \* how many expiry turns may happen

VARIABLES
    pc,         \* Procs -> program counter
    h           \* Procs -> the incarnation(s) the process captured (its Arc handles)

vars == <<coreVars, pc, h>>

NewTi == Len(torder) + 2
NewSi == Len(sorder) + 2
D == EffDeadline(0)
OpPush(p) == IF "push" \in DOMAIN Op[p] THEN Op[p].push ELSE ""
Unreg(name) == IF name \in DOMAIN reg THEN Without(reg, name) ELSE reg

Init ==
    /\ CoreInit
    /\ pc = [p \in Procs |-> "start"]
    /\ h = [p \in Procs |-> [t |-> None, s |-> None]]

Done(p) == pc[p] = "done"
SetPc(p, v) == pc' = [pc EXCEPT ![p] = v]

(***************************************************************************)
(* Steps.                                                                  *)
(***************************************************************************)
StepCreateTopic(p) ==
    /\ Op[p].op = "CreateTopic" /\ pc[p] = "start"
    /\ MgrCreateTopic_A(Op[p].name, NewTi, Op[p].name \notin DOMAIN tmap)
    /\ now' = now /\ SetPc(p, "done") /\ UNCHANGED h

StepDeleteTopic(p) ==
    /\ Op[p].op = "DeleteTopic"
    /\ \/ /\ pc[p] = "start"
          /\ IF Op[p].name \in DOMAIN tmap
             THEN h' = [h EXCEPT ![p].t = tmap[Op[p].name]] /\ SetPc(p, "turn")
             ELSE SetPc(p, "done") /\ UNCHANGED h
          /\ UNCHANGED coreVars
       \/ /\ pc[p] = "turn"
          /\ LET ti == h[p].t IN
             /\ T' = IF T[ti].deleted THEN T ELSE [T EXCEPT ![ti].deleted = TRUE, ![ti].att = Empty]
             /\ tmap' = IF ~T[ti].deleted /\ T[ti].name \in DOMAIN tmap /\ tmap[T[ti].name] = ti
                        THEN Without(tmap, T[ti].name) ELSE tmap
          /\ UNCHANGED <<now, smap, S, torder, sorder, reg, pubs, h>>
          /\ SetPc(p, "done")

StepCreateSub(p) ==
    /\ Op[p].op = "CreateSub"
    /\ \/ /\ pc[p] = "start"
          /\ IF Op[p].topic \in DOMAIN tmap
             THEN h' = [h EXCEPT ![p].t = tmap[Op[p].topic]] /\ SetPc(p, "insert")
             ELSE SetPc(p, "done") /\ UNCHANGED h
          /\ UNCHANGED coreVars
       \/ /\ pc[p] = "insert"
          /\ IF Op[p].name \in DOMAIN smap
             THEN SetPc(p, "done") /\ UNCHANGED <<coreVars, h>>
             ELSE /\ smap' = Put(smap, Op[p].name, NewSi)
                  /\ S' = Put(S, NewSi, NewSub(Op[p].name, h[p].t, D, OpPush(p)))
                  /\ sorder' = Append(sorder, NewSi)
                  /\ h' = [h EXCEPT ![p].s = NewSi]
                  /\ IF AtomicCreate
                     THEN /\ T' = [T EXCEPT ![h[p].t].att = PutIfAbsent(@, Op[p].name, NewSi)]
                          /\ SetPc(p, "done")
                     ELSE UNCHANGED T /\ SetPc(p, "attach")
                  \* the actor is started under the manager's lock and registers its push endpoint
                  \* (an existing entry for that name is KEPT: or_insert)
                  /\ reg' = IF OpPush(p) # "" THEN PutIfAbsent(reg, Op[p].name, OpPush(p)) ELSE reg
                  /\ UNCHANGED <<now, tmap, torder, pubs>>
       \/ /\ pc[p] = "attach"
          /\ T' = IF AttachChecksDeleting /\ S[h[p].s].st # "live" THEN T
                  ELSE [T EXCEPT ![h[p].t].att = PutIfAbsent(@, Op[p].name, h[p].s)]
          /\ UNCHANGED <<now, tmap, smap, S, torder, sorder, reg, pubs, h>>
          /\ SetPc(p, "done")

StepDeleteSub(p) ==
    /\ Op[p].op = "DeleteSub"
    /\ \/ /\ pc[p] = "start"
          /\ IF Op[p].name \in DOMAIN smap
             THEN h' = [h EXCEPT ![p].s = smap[Op[p].name]] /\ SetPc(p, "begin")
             ELSE SetPc(p, "done") /\ UNCHANGED h
          /\ UNCHANGED coreVars
       \/ /\ pc[p] = "begin"
          /\ LET si == h[p].s IN
             IF S[si].st # "live"
             THEN SetPc(p, "done") /\ UNCHANGED <<coreVars, h>>          \* already being deleted
             ELSE IF AtomicDelete
             THEN /\ S' = [S EXCEPT ![si].st = "deleted", ![si].queue = <<>>, ![si].lease = Empty]
                  /\ T' = [T EXCEPT ![S[si].topic].att = IF S[si].name \in DOMAIN @ THEN Without(@, S[si].name) ELSE @]
                  /\ smap' = IF S[si].name \in DOMAIN smap /\ smap[S[si].name] = si THEN Without(smap, S[si].name) ELSE smap
                  /\ reg' = Unreg(S[si].name)
                  /\ UNCHANGED <<now, tmap, torder, sorder, pubs, h>> /\ SetPc(p, "done")
             ELSE /\ S' = [S EXCEPT ![si].st = "deleting"]
                  /\ UNCHANGED <<now, tmap, smap, T, torder, sorder, reg, pubs, h>> /\ SetPc(p, "remove")
       \/ /\ pc[p] = "remove"
          /\ LET si == h[p].s IN
             \* removal from the topic's list is BY NAME
             T' = [T EXCEPT ![S[si].topic].att = IF S[si].name \in DOMAIN @ THEN Without(@, S[si].name) ELSE @]
          /\ UNCHANGED <<now, tmap, smap, S, torder, sorder, reg, pubs, h>>
          /\ SetPc(p, IF UnregisterFirst THEN "unreg" ELSE "end")
       \/ /\ pc[p] = "end"
          /\ LET si == h[p].s IN
             /\ smap' = IF S[si].name \in DOMAIN smap THEN Without(smap, S[si].name) ELSE smap   \* BY NAME
             /\ S' = [S EXCEPT ![si].st = "deleted", ![si].queue = <<>>, ![si].lease = Empty]
          /\ UNCHANGED <<now, tmap, T, torder, sorder, reg, pubs, h>>
          /\ SetPc(p, IF UnregisterFirst THEN "done" ELSE "unreg")
       \/ /\ pc[p] = "unreg"
          \* the push registry forgets the NAME (whichever incarnation registered it)
          /\ reg' = Unreg(S[h[p].s].name)
          /\ UNCHANGED <<now, tmap, smap, T, S, torder, sorder, pubs, h>>
          /\ SetPc(p, IF UnregisterFirst THEN "end" ELSE "done")

StepPublish(p) ==
    /\ Op[p].op = "Publish"
    /\ \/ /\ pc[p] = "start"
          /\ IF Op[p].topic \in DOMAIN tmap
             THEN h' = [h EXCEPT ![p].t = tmap[Op[p].topic]] /\ SetPc(p, "accept")
             ELSE SetPc(p, "done") /\ UNCHANGED h
          /\ UNCHANGED coreVars
       \/ /\ pc[p] = "accept"
          /\ LET ti == h[p].t
                 ids == [i \in 1..Op[p].n |-> <<ti, T[ti].last[2] + i>>] IN
             TopicAccept_A(ti, ids, Rng(T[ti].att))
          /\ now' = now /\ UNCHANGED h /\ SetPc(p, "done")

StepPull(p) ==
    /\ Op[p].op = "Pull"
    /\ \/ /\ pc[p] = "start"
          /\ IF Op[p].sub \in DOMAIN smap
             THEN h' = [h EXCEPT ![p].s = smap[Op[p].sub]] /\ SetPc(p, "turn")
             ELSE SetPc(p, "done") /\ UNCHANGED h
          /\ UNCHANGED coreVars
       \/ /\ pc[p] = "turn"
          /\ LET s == S[h[p].s]
                 n == IF s.st = "live" THEN Min2(Op[p].max, Len(s.queue)) ELSE 0
                 out == [i \in 1..n |-> [ack |-> Cardinality(s.used) + i, m |-> s.queue[i], dl |-> now + s.D]] IN
             S' = IF s.st = "live"
                  THEN [S EXCEPT ![h[p].s] = SubAfterPull(@, out, SubSeq(@.queue, n + 1, Len(@.queue)), now)]
                  ELSE S
          /\ UNCHANGED <<now, tmap, smap, T, torder, sorder, reg, pubs, h>> /\ SetPc(p, "done")

StepAck(p) ==
    /\ Op[p].op = "Ack"
    /\ \/ /\ pc[p] = "start"
          /\ IF Op[p].sub \in DOMAIN smap
             THEN h' = [h EXCEPT ![p].s = smap[Op[p].sub]] /\ SetPc(p, "turn")
             ELSE SetPc(p, "done") /\ UNCHANGED h
          /\ UNCHANGED coreVars
       \/ /\ pc[p] = "turn"
          /\ S' = [S EXCEPT ![h[p].s] = IF @.st = "live" THEN SubAfterAck(@, Op[p].acks) ELSE @]
          /\ UNCHANGED <<now, tmap, smap, T, torder, sorder, reg, pubs, h>> /\ SetPc(p, "done")

\* Nack (ModifyAckDeadline 0) of a set of ack ids: they go back to the queue.
StepNack(p) ==
    /\ Op[p].op = "Nack"
    /\ \/ /\ pc[p] = "start"
          /\ IF Op[p].sub \in DOMAIN smap
             THEN h' = [h EXCEPT ![p].s = smap[Op[p].sub]] /\ SetPc(p, "turn")
             ELSE SetPc(p, "done") /\ UNCHANGED h
          /\ UNCHANGED coreVars
       \/ /\ pc[p] = "turn"
          /\ LET mods == SetToSeq({[ack |-> a, dl |-> None, lo |-> None, hi |-> None] : a \in Op[p].acks}) IN
             S' = [S EXCEPT ![h[p].s] = IF @.st = "live" THEN SubAfterMods(@, mods) ELSE @]
          /\ UNCHANGED <<now, tmap, smap, T, torder, sorder, reg, pubs, h>> /\ SetPc(p, "done")

\* Time passes and every delivery of a live subscription expires at once (the expiry turn of its
\* actor); at most MaxExpiries times.
ActorExpire(si) ==
    /\ S[si].st = "live" /\ S[si].lease # Empty /\ now < MaxExpiries * (D + 1)
    /\ now' = now + D + 1
    /\ S' = [S EXCEPT ![si] = SubAfterExpire(@, SetToSeq(DOMAIN @.lease))]
    /\ UNCHANGED <<tmap, smap, T, torder, sorder, reg, pubs, pc, h>>

\* A subscription actor processes the oldest batch in its mailbox.
ActorPost(si) ==
    /\ S[si].inbox # <<>>
    /\ SubPost_A(si, Head(S[si].inbox))
    /\ now' = now /\ UNCHANGED <<pc, h>>

Next ==
    \/ \E p \in Procs : StepCreateTopic(p) \/ StepDeleteTopic(p) \/ StepCreateSub(p) \/ StepDeleteSub(p)
                        \/ StepPublish(p) \/ StepPull(p) \/ StepAck(p) \/ StepNack(p)
    \/ \E si \in DOMAIN S : ActorPost(si) \/ ActorExpire(si)

Spec == Init /\ [][Next]_vars

(***************************************************************************)
(* Properties.                                                             *)
(***************************************************************************)
AtRest == (\A p \in Procs : Done(p)) /\ \A si \in DOMAIN S : (S[si].inbox = <<>> \/ S[si].st # "live")

InvCore == CoreInvariants

\* C11 / C16: at rest the topic-side lists and the managers agree.
InvRest == AtRest => (C11_AttachedExact /\ C16_Attached)

\* C11: a subscription that is not live is never (again) in a topic's list at rest.
InvNoDeadAttached ==
    AtRest => \A ti \in DOMAIN T : \A si \in Rng(T[ti].att) : S[si].st = "live"

\* C10: the name maps only bind live incarnations at rest.
InvMapsLive ==
    AtRest => \A n \in DOMAIN smap : S[smap[n]].st = "live"

\* C14: at rest the push registry lists exactly the live subscriptions that have a push endpoint.
InvRegistry == AtRest => C14_RegistryExact

\* C01: at rest, every message a live subscription's topic accepted while the subscription was in
\* its fan-out has been posted to it (nothing accepted is lost on the way).
InvAcceptedPosted ==
    AtRest => \A si \in DOMAIN S : S[si].st = "live" => S[si].inbox = <<>>
=============================================================================
