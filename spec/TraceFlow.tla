----------------------------- MODULE TraceFlow -----------------------------
(***************************************************************************)
(* Validates recorded executions of the real FlowControl (forced schedules *)
(* of the thread-per-process scheduler, and free-running stress rounds)    *)
(* against FlowControl.tla.  The constants (processes, scripts, limits)    *)
(* are those of the model-checking configuration the schedules came from.  *)
(***************************************************************************)
EXTENDS FlowControl, Json, IOUtils

Rec == ndJsonDeserialize(IOEnv.TRACE)

VARIABLES l, skip, run, lastLoad, stats
tvars == <<vars, l, skip, run, lastLoad, stats>>

HookOf(pcv) ==
    CASE pcv \in {"c1m", "c2m"} -> "lm"
      [] pcv \in {"c1b", "c2b"} -> "lb"
      [] pcv = "end" -> "done"
      [] OTHER -> pcv

Procs == Waiters \cup Mutators
FinalBytes == InitBytes + LET RECURSIVE Sum(_, _) Sum(sq, i) == IF i > Len(sq) THEN 0 ELSE (IF sq[i].op = "inc" THEN sq[i].b ELSE 0 - sq[i].b) + Sum(sq, i + 1)
                              RECURSIVE All(_) All(ms) == IF ms = {} THEN 0 ELSE LET m == CHOOSE x \in ms : TRUE IN Sum(Script[m], 1) + All(ms \ {m})
                          IN All(Mutators)
FinalMsgs == InitMsgs + LET RECURSIVE Sum(_, _) Sum(sq, i) == IF i > Len(sq) THEN 0 ELSE (IF sq[i].op = "inc" THEN sq[i].m ELSE 0 - sq[i].m) + Sum(sq, i + 1)
                            RECURSIVE All(_) All(ms) == IF ms = {} THEN 0 ELSE LET m == CHOOSE x \in ms : TRUE IN Sum(Script[m], 1) + All(ms \ {m})
                        IN All(Mutators)
FinalBelow == FinalBytes < MaxBytes /\ FinalMsgs < MaxMsgs

Failed(gs) == {g[1] : g \in {x \in gs : ~x[2]}}

\* The model step that a recorded step claims to be.
ModelStep(p, label) ==
    IF p \in Waiters
    THEN /\ (IF label = "resume" THEN pc[p] = "parked" ELSE pc[p] = label) /\ WaiterStep(p)
    ELSE /\ pc[p] = label /\ MutatorStep(p)

StepGuards(e) ==
    { <<"DRIFT", e.p \in Procs>>,
      <<"DRIFT", e.p \in Procs => (IF e.label = "resume" THEN pc[e.p] = "parked" ELSE pc[e.p] = e.label)>>,
      \* the value the real code loaded is the model's counter at that step
      <<"DRIFT", (e.label \in {"c1m", "c2m"}) => (lastLoad.what = "m" /\ lastLoad.v = msgs)>>,
      <<"DRIFT", (e.label \in {"c1b", "c2b"}) => (lastLoad.what = "b" /\ lastLoad.v = bytes)>>,
      \* C19: a waiter resumes only after having observed both counts below their limits
      <<"C19", (e.p \in Waiters /\ e.next = "done") =>
                 (e.label \in {"c1b", "c2b"} /\ lastLoad.what = "b" /\ lastLoad.v < MaxBytes /\ obsM[e.p] >= 0 /\ obsM[e.p] < MaxMsgs)>> }

TraceInit ==
    /\ Init
    /\ l = 1 /\ skip = FALSE /\ run = "none"
    /\ lastLoad = [what |-> "none", v |-> 0]
    /\ stats = [ok |-> 0, bad |-> 0, drift |-> 0, steps |-> 0]

Reset(e) ==
    /\ bytes' = InitBytes /\ msgs' = InitMsgs /\ gen' = 0 /\ permit' = FALSE /\ parked' = <<>>
    /\ pc' = [p \in Procs |-> IF p \in Waiters THEN "c1m" ELSE IF Len(Script[p]) = 0 THEN "end" ELSE "ab"]
    /\ sgen' = [w \in Waiters |-> 0] /\ sst' = [w \in Waiters |-> "none"]
    /\ obsM' = [w \in Waiters |-> -1] /\ obsB' = [w \in Waiters |-> -1]
    /\ ip' = [m \in Mutators |-> 1] /\ hist' = <<>>
    /\ skip' = FALSE /\ run' = e.run /\ lastLoad' = [what |-> "none", v |-> 0]

Viol(e, props) == PrintT(<<"VIOL", ToJson([run |-> run, i |-> e.i, k |-> e.k, line |-> l, props |-> props])>>)

TraceNext ==
    /\ l <= Len(Rec)
    /\ l' = l + 1
    /\ LET e == Rec[l] IN
       CASE e.k = "reset" -> Reset(e) /\ UNCHANGED stats
         [] e.k = "fc.load" ->
              /\ lastLoad' = [what |-> e.what, v |-> e.v]
              /\ UNCHANGED <<vars, skip, run, stats>>
         [] e.k = "fc.step" ->
              IF skip THEN UNCHANGED <<vars, skip, run, lastLoad, stats>>
              ELSE LET f == Failed(StepGuards(e)) IN
                   IF "C19" \in f
                   THEN /\ Viol(e, f) /\ skip' = TRUE /\ stats' = [stats EXCEPT !.bad = @ + 1]
                        /\ UNCHANGED <<vars, run, lastLoad>>
                   ELSE IF f # {}
                   THEN \* the code is not where the model is: the model stops following this history
                        /\ PrintT(<<"DRIFT", ToJson([run |-> run, i |-> e.i, k |-> e.k, line |-> l])>>)
                        /\ skip' = TRUE /\ stats' = [stats EXCEPT !.drift = @ + 1]
                        /\ UNCHANGED <<vars, run, lastLoad>>
                   ELSE /\ ModelStep(e.p, e.label)
                        /\ (HookOf(pc'[e.p]) # e.next =>
                               PrintT(<<"DRIFT", ToJson([run |-> run, i |-> e.i, k |-> "next", line |-> l])>>))
                        /\ skip' = (HookOf(pc'[e.p]) # e.next)
                        /\ stats' = [stats EXCEPT !.steps = @ + 1,
                                                  !.drift = @ + (IF HookOf(pc'[e.p]) # e.next THEN 1 ELSE 0)]
                        /\ UNCHANGED <<run, lastLoad>>
         [] e.k = "fc.diverge" ->
              /\ PrintT(<<"DRIFT", ToJson([run |-> run, i |-> e.i, k |-> e.k, line |-> l])>>)
              /\ skip' = TRUE /\ stats' = [stats EXCEPT !.drift = @ + 1]
              /\ UNCHANGED <<vars, run, lastLoad>>
         [] e.k = "fc.end" ->
              \* C19: all changes are done; if capacity is free nobody may still be waiting
              IF FinalBelow /\ e.pending # <<>>
              THEN /\ Viol(e, {"C19"}) /\ stats' = [stats EXCEPT !.bad = @ + 1]
                   /\ UNCHANGED <<vars, skip, run, lastLoad>>
              ELSE /\ stats' = [stats EXCEPT !.ok = @ + 1] /\ UNCHANGED <<vars, skip, run, lastLoad>>
         [] e.k = "fc.free" ->
              IF FinalBelow /\ e.stuck > 0
              THEN /\ Viol(e, {"C19"}) /\ stats' = [stats EXCEPT !.bad = @ + 1]
                   /\ UNCHANGED <<vars, skip, run, lastLoad>>
              ELSE /\ stats' = [stats EXCEPT !.ok = @ + 1] /\ UNCHANGED <<vars, skip, run, lastLoad>>
         [] OTHER -> UNCHANGED <<vars, skip, run, lastLoad, stats>>

TraceSpec == TraceInit /\ [][TraceNext]_tvars

TraceAccepted ==
    LET d == TLCGet("stats").diameter IN
    IF d = Len(Rec) + 1 THEN TRUE
    ELSE /\ PrintT(<<"STUCK", ToJson([line |-> d])>>) /\ FALSE

Summary == (l = Len(Rec) + 1) => PrintT(<<"SUMMARY", ToJson(stats)>>)
=============================================================================
