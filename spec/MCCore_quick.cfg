SPECIFICATION Spec
VIEW View
CHECK_DEADLOCK FALSE
CONSTANTS
  SecMs = 1
  MinAckSec = 2
  MaxModSec = 4
  Slack = 0
  Gran = 0
  TopicNames = {"projects/p1/topics/t1"}
  SubNames = {"projects/p1/subscriptions/s1", "projects/p1/subscriptions/s2"}
  P2Names = {}
  AckSecs = {0}
  ModSecs = {0, 1, 3}
  PubSizes = {1, 2}
  PullMaxes = {1, 2}
  Advances = {1, 2}
  AckRefs = {1, 2}
  WalkSizes = {}
  Reads = FALSE
  MaxOps = 6
  MaxNow = 6
  MaxMsgs = 2
  Emit = FALSE
INVARIANT Inv
PROPERTY C02_Stable C03_Fresh C08_Monotone
