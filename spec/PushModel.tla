----------------------------- MODULE PushModel -----------------------------
(***************************************************************************)
(* The push loop at the grain of rounds and attempts (push/push_loop.rs):  *)
(* every round pulls what is queued on a push subscription and POSTs each  *)
(* message; a status in {102,200,201,202,204} acknowledges it, anything    *)
(* else (other status, failed connection) gives it back to the queue for   *)
(* the next round.  TLC checks the at-least-once / never-again-after-      *)
(* accept contract on all outcome sequences up to a bound and prints each  *)
(* complete outcome script: the harness' scripted endpoint plays it.       *)
(***************************************************************************)
EXTENDS Integers, Sequences, FiniteSets, TLC, Json

CONSTANTS
    Msgs,           \* message payload names
    Outcomes,       \* per-attempt endpoint behaviours: status codes, -1 = connection dropped
    MaxAttempts     \* the last allowed attempt always succeeds (so that every script ends)

Success == {102, 200, 201, 202, 204}

VARIABLES st, script, posts
vars == <<st, script, posts>>

Init == /\ st = [m \in Msgs |-> "queued"]
        /\ script = [m \in Msgs |-> <<>>]
        /\ posts = [m \in Msgs |-> 0]

\* A push round hands every queued message to a dispatcher.
Round == /\ \E m \in Msgs : st[m] = "queued"
         /\ st' = [m \in Msgs |-> IF st[m] = "queued" THEN "inflight" ELSE st[m]]
         /\ UNCHANGED <<script, posts>>

Attempt(m, o) ==
    /\ st[m] = "inflight"
    /\ (Len(script[m]) = MaxAttempts - 1) => o \in Success
    /\ script' = [script EXCEPT ![m] = Append(@, o)]
    /\ posts' = [posts EXCEPT ![m] = @ + 1]
    /\ st' = [st EXCEPT ![m] = IF o \in Success THEN "acked" ELSE "queued"]

Next == Round \/ \E m \in Msgs, o \in Outcomes : Attempt(m, o)
Spec == Init /\ [][Next]_vars /\ WF_vars(Next)

\* C14: once accepted, never POSTed again; POSTed again after every failure.
NeverAfterAccept == \A m \in Msgs : st[m] = "acked" => (script[m] # <<>> /\ script[m][Len(script[m])] \in Success
                                                         /\ \A i \in 1..(Len(script[m]) - 1) : script[m][i] \notin Success)
PostedPerAttempt == \A m \in Msgs : posts[m] = Len(script[m])
Eventually == <>(\A m \in Msgs : st[m] = "acked")

Done == \A m \in Msgs : st[m] = "acked"
Emit == Done => PrintT(<<"SCRIPT", ToJson(script)>>)
=============================================================================
