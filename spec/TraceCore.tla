------------------------------ MODULE TraceCore ------------------------------
(***************************************************************************)
(* Trace specification: consumes the ndjson events recorded from the real  *)
(* server (hooks under cfg(deltio_verif)) and from the harness' clients,   *)
(* one event per step, and re-uses the guards and transition functions of  *)
(* PubSubCore.                                                             *)
(*                                                                         *)
(*  - a SERVER event is one critical section: its recorded arguments are   *)
(*    bound to the corresponding core action, every named guard of that    *)
(*    action is evaluated, and the model state advances;                   *)
(*  - a CLIENT `ret` event is checked against the validated server events  *)
(*    that lie between its `inv` and itself (its possible linearisations)  *)
(*    and against the model state.                                         *)
(*                                                                         *)
(* A guard that fails is printed as a VIOL line naming its property; the   *)
(* rest of that history is skipped (the model no longer describes it) and  *)
(* validation continues with the next history (`reset` event).             *)
(*                                                                         *)
(* Recorded sub-actor state that differs from the model after an otherwise *)
(* acceptable turn is ADOPTED (tag DRIFT, not a verdict) and the state     *)
(* invariants are evaluated on the adopted state, so that a divergence is  *)
(* attributed to the property it breaks and not to the model.              *)
(***************************************************************************)
EXTENDS PubSubCore, Names, Json, IOUtils

CONSTANTS
    MinWait,    \* shortest wait after which a blocking Pull may return empty
    WaitLimit,  \* the server-side wait limit of a blocking Pull (an upper bound on it)
    Prompt      \* how soon after a deletion its waiting consumers must have been released

Rec == ndJsonDeserialize(IOEnv.TRACE)

VARIABLES
    l,        \* index of the next event
    skip,     \* TRUE: the current history was rejected, wait for the next reset
    hdr,      \* the reset event of the current history
    pend,     \* client -> [e |-> inv event, from |-> index, ctrl |-> control messages of a stream]
    tok,      \* page token string -> offset, learnt from list responses
    content,  \* message id -> [data, attrs], learnt from Publish / first delivery
    ptime,    \* message id -> publish time string, learnt from the first delivery
    gone,     \* inv events of calls their client abandoned (their requests may still be processed)
    httpLast, \* <<subscription incarnation, message>> -> status the push endpoint answered last (-1: none)
    delT,     \* subscription incarnation -> instant its deletion completed
    obsDel,   \* subscription incarnation -> index of the first response that observed it as deleted
    wire,     \* message id as clients see it (a string) -> the message it was issued for (t.accept)
    lightNb,  \* light histories: subscription incarnation -> last reported backlog size (-1: deleted)
    lightNl,  \* light histories: subscription incarnation -> last reported number of outstanding deliveries
    stats     \* [events |-> validated events, hist |-> histories accepted so far, viol |-> ...]

tvars == <<coreVars, l, skip, hdr, pend, tok, content, ptime, gone, httpLast, delT, obsDel, wire, lightNb, lightNl, stats>>

JudgeLate == "clock" \notin DOMAIN hdr.meta \/ hdr.meta.clock = "paused"
\* Light histories (very large backlogs): the actors report sizes only and the model abstains
\* from everything but the batch-limit guards of C15.
Light == "light" \in DOMAIN hdr.meta /\ hdr.meta.light
\* How much earlier than computed a recorded deadline / expiry may lie: the recording granularity
\* under the paused clock; under a real clock the handler's instant and the event's instant are
\* read at different moments of a pre-emptible thread.
Early == IF JudgeLate THEN Gran ELSE 2000
ProjOf == IF "proj" \in DOMAIN hdr.meta THEN hdr.meta.proj ELSE Empty

(***************************************************************************)
(* Helpers over recorded structures.                                       *)
(***************************************************************************)
LeaseSetOfLog(st) == {<<x[1], <<x[2], x[3]>>, x[4]>> : x \in SeqSet(st.lease)}
LeaseSetOfModel(s) == {<<a, s.lease[a].m, s.lease[a].dl>> : a \in DOMAIN s.lease}
ExpSetOfLog(st) == {<<x[2], x[1]>> : x \in SeqSet(st.exp)}

\* The model record with queue and leases replaced by the recorded ones.
Adopt(s, st) ==
    IF st.backlog = s.queue /\ LeaseSetOfLog(st) = LeaseSetOfModel(s) THEN s
    ELSE [s EXCEPT
            !.queue = st.backlog,
            !.lease = [a \in {x[1] : x \in SeqSet(st.lease)} |->
                         LET x == CHOOSE y \in SeqSet(st.lease) : y[1] = a IN
                         IF a \in DOMAIN s.lease /\ s.lease[a].m = <<x[2], x[3]>>
                         THEN [s.lease[a] EXCEPT !.dl = x[4]]
                         ELSE [m |-> <<x[2], x[3]>>, dl |-> x[4], lo |-> x[4], hi |-> x[4] + Slack, md |-> FALSE]]]

\* Guards on the (adopted) state of one subscription after a turn.
SubStateGuards0(post, st) ==
    LET s == Adopt(post, st) IN
    { G("DRIFT", st.backlog = post.queue),
      G("DRIFT", LeaseSetOfLog(st) = LeaseSetOfModel(post)),
      G("DRIFT", st.deleted = (post.st # "live")),
      \* the expiry schedule and the delivery map describe the same set (C02's anchor):
      \* a schedule entry without a delivery resurrects an acknowledged message; a delivery
      \* without a schedule entry is never redelivered
      \* ... an entry for an id that is not outstanding would resurrect an acknowledged / nacked delivery
      G("C02", {x[1] : x \in ExpSetOfLog(st)} \subseteq {x[1] : x \in LeaseSetOfLog(st)}),
      \* ... an entry with another instant than the delivery's deadline ends a live lease at the wrong time
      G("C03,C04,C05", \A x \in ExpSetOfLog(st) : (\E y \in LeaseSetOfLog(st) : y[1] = x[1]) =>
                                                   (\E y \in LeaseSetOfLog(st) : y[1] = x[1] /\ y[3] = x[2])),
      G("C01,C04,C05", {<<x[1], x[3]>> : x \in LeaseSetOfLog(st)} \subseteq ExpSetOfLog(st)),
      G("C01", s.st = "live" => \A m \in s.posted : m \in SeqSet(s.queue) \/ m \in LeasedMsgs(s) \/ m \in s.acked),
      \* an outstanding delivery does not vanish: it stays outstanding, is acknowledged, or is back
      \* in the backlog for redelivery (C04: "becomes available for redelivery")
      G("C04", s.st = "live" => \A m \in LeasedMsgs(post) : m \in SeqSet(s.queue) \/ m \in LeasedMsgs(s) \/ m \in s.acked),
      G("C01", SeqSet(s.queue) \cup LeasedMsgs(s) \subseteq s.posted),
      G("C02", s.acked \cap (SeqSet(s.queue) \cup LeasedMsgs(s)) = {}),
      G("C03", \A a, b \in DOMAIN s.lease : a # b => s.lease[a].m # s.lease[b].m),
      \* (a message that is outstanding AND queued exists twice: acknowledging one copy leaves the
      \* other to be delivered after the acknowledgement - C02)
      \* (and the queued copy is handed out again before the outstanding delivery's deadline - C04)
      G("C02,C03,C04", LeasedMsgs(s) \cap SeqSet(s.queue) = {}),
      G("C02,C03", NoDup(s.queue)),
      G("C03", DOMAIN s.lease \subseteq s.used),
      G("C11", s.st = "deleted" => (s.queue = <<>> /\ s.lease = Empty)) }

\* A lease ends only by what the turn is about (`post` is the model after the turn's
\* acknowledgements, nacks or expiries) - or because its deadline has been reached: an
\* implementation may expire overdue deliveries in ANY turn (a turn composed with an expiry; whether
\* the consumers are woken then is C06's business, judged at the next moment of rest).  A delivery
\* that is back in the backlog although nobody nacked it and its deadline has not been reached is
\* "available for redelivery" too early (C04).
LeaseKept(post, st, t) ==
    { G("C04", (post.st = "live" /\ ~st.deleted) =>
                  \A a \in DOMAIN post.lease :
                      (\E x \in SeqSet(st.lease) : x[1] = a) \/ t >= post.lease[a].lo - Early) }
SubStateGuards(post, st, t) == SubStateGuards0(post, st) \cup LeaseKept(post, st, t)

Fatal(gs) == Failed(gs) \ {"DRIFT"}

(***************************************************************************)
(* Pending client calls.                                                   *)
(***************************************************************************)
Win(c) == {Rec[j] : j \in (pend[c].from + 1)..(l - 1)}
TopicLookups(W, name) == {w.ti : w \in {x \in W : x.k = "m.gt" /\ x.name = name}}
SubLookups(W, name) == {w.si : w \in {x \in W : x.k = "m.gs" /\ x.name = name}}
Solo(c) == DOMAIN pend = {c}

EffSize(n) == IF n = 0 THEN 20 ELSE IF n > 1000 THEN 1000 ELSE n
DeletedTopicName == "_deleted_topic_"

\* Do the message projections of a response equal the deliveries of a recorded pull?
SameDeliveries(msgs, out) ==
    /\ Len(msgs) = Len(out)
    /\ \A i \in 1..Len(msgs) : msgs[i].ack = out[i].ack /\ msgs[i].m = out[i].m

\* C09 on one received message r.
ContentGuards(msgs) ==
    { G("C09", \A i \in 1..Len(msgs) : msgs[i].m \in DOMAIN pubs),
      \* (the id a Publish response gave for its i-th message is the id under which exactly that
      \* message is delivered: C08 "one id per submitted message, in request order" as well as C09)
      G("C08,C09", \A i \in 1..Len(msgs) :
                 msgs[i].m \in DOMAIN content =>
                    content[msgs[i].m] = [data |-> msgs[i].data, attrs |-> msgs[i].attrs]),
      G("C09", \A i \in 1..Len(msgs) : msgs[i].m \in DOMAIN ptime => ptime[msgs[i].m] = msgs[i].pt),
      \* two copies of one message in one response carry the same content
      G("C09", \A i, j \in 1..Len(msgs) : msgs[i].m = msgs[j].m =>
                 (msgs[i].data = msgs[j].data /\ msgs[i].attrs = msgs[j].attrs /\ msgs[i].pt = msgs[j].pt)) }

ContentAfter(msgs) ==
    [m \in (DOMAIN content) \cup {msgs[i].m : i \in 1..Len(msgs)} |->
        IF m \in DOMAIN content THEN content[m]
        ELSE LET i == CHOOSE j \in 1..Len(msgs) : msgs[j].m = m
             IN [data |-> msgs[i].data, attrs |-> msgs[i].attrs]]
PtimeAfter(msgs) ==
    [m \in (DOMAIN ptime) \cup {msgs[i].m : i \in 1..Len(msgs)} |->
        IF m \in DOMAIN ptime THEN ptime[m]
        ELSE LET i == CHOOSE j \in 1..Len(msgs) : msgs[j].m = m IN msgs[i].pt]

\* The configuration echo of a subscription resource (C10), and its topic field (C11).
NoTopicHolder(c) ==
    /\ \A c2 \in DOMAIN pend \ {c} : pend[c2].e.op \in {"Pull", "StreamOpen", "Ack", "ModAck", "GetSub", "ListSubs", "ListTopics", "Other"}
    /\ \A g \in gone : g.op \in {"Pull", "StreamOpen", "Ack", "ModAck", "GetSub", "ListSubs", "ListTopics"}

SubEchoGuards(c, b, si) ==
    LET s == S[si] IN
    { G("C10", b.name = s.name),
      G("C10", b.ack * SecMs = s.D),
      G("C10", b.push = s.push),
      G("C11", b.topic = T[s.topic].name \/ (b.topic = DeletedTopicName /\ T[s.topic].deleted)),
      \* after DeleteTopic returned: reported as deleted.  (Requests addressed to the topic that are
      \* still in flight may keep it alive a little longer; consumers of the subscription - blocked
      \* pulls, open streams - and requests addressed to subscriptions must not.)
      G("C11", (NoTopicHolder(c) /\ T[s.topic].deleted /\ ~TopicBound(s.topic)) => b.topic = DeletedTopicName) }


\* A request that raced with the deletion of its subscription may fail with any status.
RacedDeletion(W, name) == \E si \in SubLookups(W, name) \ {None} : si \in DOMAIN S /\ S[si].st # "live"

AcksAreInts(p) == p.bad = 0

\* The instants at which the deletion of a subscription that call c looked up was completed.
DeletionTimes(W, name) ==
    {w.t : w \in {x \in W : x.k = "s.del1" /\ x.si \in SubLookups(W, name)}}

\* A consumer of a deleted subscription is released within `Prompt` of the deletion (C12);
\* decided only under the paused clock.
ReleasedPromptly(W, name, t) ==
    JudgeLate => \A d \in DeletionTimes(W, name) : t <= d + Prompt

\* A listing's project field that is not plainly `projects/<non-empty, no slash>`: the contract does
\* not say how such a string is answered (only: with a status, never a panic or a broken connection).
OddProject(p) ==
    /\ p.op \in {"ListTopics", "ListSubs"} /\ "project_chars" \in DOMAIN p /\ ~p.project_long
    /\ LET cs == p.project_chars IN
       ~(Len(cs) > Len(PRE) /\ SubSeq(cs, 1, Len(PRE)) = PRE
         /\ \A i \in (Len(PRE) + 1)..Len(cs) : cs[i] # "/")

\* (a listing that drops or invents entries, or ends a walk early, also breaks what the listing is
\* FOR: "every later request observes a create" - C10 - and "ListTopicSubscriptions equals exactly
\* the set of live subscriptions" - C11)
ListTag(p) == IF p.op = "ListTopicSubs" THEN "C11,C13" ELSE "C10,C13"
ListRetGuards(p, e, W, kinds) ==
    LET evs == {w \in W : w.k \in kinds} IN
    { G("C13", e.code \in {"OK", "INVALID_ARGUMENT", "NOT_FOUND"}),
      G("C13", e.code = "INVALID_ARGUMENT" => (p.size < 0 \/ (p.token # "" /\ p.token \notin DOMAIN tok) \/ OddProject(p))),
      G("C13", p.size < 0 => e.code = "INVALID_ARGUMENT"),
      G(ListTag(p), e.code = "OK" =>
            \E w \in evs :
               /\ w.size = EffSize(p.size)
               /\ (p.token = "" => w.skip = 0)
               /\ (p.token \in DOMAIN tok => w.skip = tok[p.token])
               /\ Len(w.out) = Len(e.body.names)
               /\ (w.next = None <=> e.body.next = "")
               /\ (e.body.next \in DOMAIN tok => tok[e.body.next] = w.next)
               /\ \A i \in 1..Len(w.out) :
                     IF w.k = "m.lt" THEN w.out[i] \in DOMAIN T /\ T[w.out[i]].name = e.body.names[i]
                     ELSE w.out[i] \in DOMAIN S /\ S[w.out[i]].name = e.body.names[i]) }

TokAfter(p, e, W, kinds) ==
    IF e.code = "OK" /\ e.body.next # "" /\ e.body.next \notin DOMAIN tok
    THEN LET evs == {w \in W : w.k \in kinds /\ w.next # None /\ Len(w.out) = Len(e.body.names)} IN
         IF evs = {} THEN tok
         ELSE Put(tok, e.body.next, (CHOOSE w \in evs : TRUE).next)
    ELSE tok

(***************************************************************************)
(* Malformed requests (C17): recorded when the scenario is an inputs       *)
(* scenario (the characters of every name field are in the inv event).     *)
(***************************************************************************)
StateChangingKinds == {"m.ct", "m.cs", "m.rs", "m.rt", "t.accept", "t.attach", "t.remove", "t.delete",
                       "s.post", "s.ack", "s.mod", "s.del0", "s.del1", "r.set"}
ChangesState(W) == \E w \in W : w.k \in StateChangingKinds \/ (w.k = "s.pull" /\ w.out # <<>>)

HasChars(p, f) == (f \o "_chars") \in DOMAIN p /\ ~p[f \o "_long"]
BadTopicField(p, f) == HasChars(p, f) /\ ~IsTopicName(p[f \o "_chars"])
BadSubField(p, f) == HasChars(p, f) /\ ~IsSubName(p[f \o "_chars"])
MalformedName(p) ==
    CASE p.op \in {"CreateTopic", "GetTopic", "DeleteTopic"} -> BadTopicField(p, "name")
      [] p.op \in {"Publish", "ListTopicSubs"} -> BadTopicField(p, "topic")
      [] p.op = "CreateSub" -> BadSubField(p, "name") \/ BadTopicField(p, "topic")
      [] p.op \in {"GetSub", "DeleteSub"} -> BadSubField(p, "name")
      [] p.op \in {"Pull", "Ack", "ModAck", "StreamOpen"} -> BadSubField(p, "sub")
      [] OTHER -> FALSE

MalGuards(c, e) ==
    LET p == pend[c].e
        W == Win(c) IN
    { \* a malformed resource name is rejected with INVALID_ARGUMENT
      G("C17", MalformedName(p) => e.code = "INVALID_ARGUMENT"),
      \* a rejected request changes no state
      \* (not judged while a push loop runs beside the clients: its own pulls, acks and nacks fall into
      \* any call's window)
      G("C17", (Solo(c) /\ e.code = "INVALID_ARGUMENT" /\ JudgeLate) => ~ChangesState(W)),
      \* never a broken connection
      G("C17", Solo(c) => e.code \notin {"UNAVAILABLE", "UNKNOWN", "CANCELLED"}),
      \* page tokens: undecodable ones are rejected, decodable ones (issued or not) give a page
      G("C17", ("token_decodable" \in DOMAIN p /\ ~p.token_decodable) => e.code = "INVALID_ARGUMENT"),
      G("C13", ("token_decodable" \in DOMAIN p /\ p.token_decodable /\ p.size >= 0 /\ ~MalformedName(p) /\ ~OddProject(p))
                  => e.code \in {"OK", "NOT_FOUND"}) }

RetGuards(c, e) ==
    LET p == pend[c].e
        W == Win(c)
    IN
    MalGuards(c, e) \cup
    IF MalformedName(p) THEN {} ELSE
    CASE p.op = "CreateTopic" ->
        { G("C10", e.code \in {"OK", "ALREADY_EXISTS"}),
          G("C10", e.code = "OK" => ((\E w \in W : w.k = "m.ct" /\ w.name = p.name /\ w.ok) /\ e.body.name = p.name)),
          G("C10", e.code = "ALREADY_EXISTS" => \E w \in W : w.k = "m.ct" /\ w.name = p.name /\ ~w.ok) }
      [] p.op = "Other" ->
        \* an RPC the emulator does not implement: whatever status it is answered with (the broken
        \* connection is judged in MalGuards), a request that is not carried out changes nothing
        { G("C17", (Solo(c) /\ e.code # "OK" /\ JudgeLate) => ~ChangesState(W)) }
      [] p.op = "GetTopic" ->
        { G("C10", e.code \in {"OK", "NOT_FOUND"}),
          G("C10", e.code = "OK" => ((TopicLookups(W, p.name) \ {None} # {}) /\ e.body.name = p.name)),
          G("C10", e.code = "NOT_FOUND" => None \in TopicLookups(W, p.name)) }
      [] p.op = "DeleteTopic" ->
        { G("C10", e.code \in {"OK", "NOT_FOUND"}),
          G("C10", e.code = "OK" => \E ti \in TopicLookups(W, p.name) \ {None} :
                                        (\E w \in W : w.k = "t.delete" /\ w.ti = ti) /\ T[ti].deleted
                                        /\ ~(p.name \in DOMAIN tmap /\ tmap[p.name] = ti)),
          G("C10", e.code = "NOT_FOUND" => None \in TopicLookups(W, p.name)) }
      [] p.op = "Publish" ->
        { G("C10", e.code = "NOT_FOUND" => None \in TopicLookups(W, p.topic)),
          G("C08", e.code = "OK" => Len(e.body.ids) = Len(p.msgs)),
          G("C08", e.code = "OK" => \E w \in W : w.k = "t.accept" /\ w.ids = e.body.ids
                                                  /\ w.ti \in TopicLookups(W, p.topic)),
          G("C09", e.code = "OK" => \A i \in 1..Len(e.body.ids) :
                       e.body.ids[i] \in DOMAIN content =>
                          (i <= Len(p.msgs) /\ content[e.body.ids[i]] = [data |-> p.msgs[i].data, attrs |-> p.msgs[i].attrs])),
          G("C10", e.code \notin {"OK", "NOT_FOUND"} =>
                       \E w \in W : w.k = "t.accept" /\ \E si \in SeqSet(w.fan) : si \in DOMAIN S /\ S[si].st # "live") }
      [] p.op = "CreateSub" ->
        { G("C10", e.code = "NOT_FOUND" => None \in TopicLookups(W, p.topic)),
          \* refused for its topic or project: nothing is created (no other create of the name in flight)
          \* (what such a request leaves behind is a subscription that reports a topic which does not
          \* list it: C11 as well)
          G("C10,C11", (Solo(c) /\ e.code \in {"NOT_FOUND", "INVALID_ARGUMENT"}) =>
                       ~\E w \in W : w.k = "m.cs" /\ w.name = p.name /\ w.ok),
          G("C10", e.code = "ALREADY_EXISTS" => \E w \in W : w.k = "m.cs" /\ w.name = p.name /\ ~w.ok),
          \* ... and not because of an incarnation whose deletion an EARLIER response already reported
          G("C10", e.code = "ALREADY_EXISTS" =>
                       ~(p.name \in DOMAIN smap /\ smap[p.name] \in DOMAIN obsDel /\ obsDel[smap[p.name]] < pend[c].from)),
          G("C10", e.code = "INVALID_ARGUMENT" =>
                       \/ (p.name \in DOMAIN ProjOf /\ p.topic \in DOMAIN ProjOf /\ ProjOf[p.name] # ProjOf[p.topic])
                       \/ ~p.push_http),
          \* a subscription is never created on a topic of another project (projects are compared
          \* as whole ids: `p1` is not `p1x`)
          G("C10", e.code = "OK" =>
                       ~(p.name \in DOMAIN ProjOf /\ p.topic \in DOMAIN ProjOf /\ ProjOf[p.name] # ProjOf[p.topic])),
          \* an unsupported push endpoint is a malformed field (C17): rejected, nothing created
          G("C17", ~p.push_http => e.code = "INVALID_ARGUMENT"),
          G("C17", ~p.push_http => ~\E w \in W : w.k = "m.cs" /\ w.name = p.name),
          G("C10", e.code = "OK" =>
                       \E w \in W : /\ w.k = "m.cs" /\ w.name = p.name /\ w.ok
                                    /\ w.ti \in TopicLookups(W, p.topic)
                                    /\ w.push = p.push
                                    \* attached before the call returned (C16)
                                    /\ \E a \in W : a.k = "t.attach" /\ a.si = w.si /\ a.ti = w.ti),
          G("C16", e.code = "OK" =>
                       \E w \in W : w.k = "m.cs" /\ w.name = p.name /\ w.ok
                                    /\ \E a \in W : a.k = "t.attach" /\ a.si = w.si /\ a.ti = w.ti),
          G("C10", e.code = "OK" => (e.body.name = p.name /\ e.body.push = p.push
                                     /\ e.body.topic \in {p.topic, DeletedTopicName})),
          \* the deadline in force is the requested one raised to the minimum; for a requested value
          \* outside the valid range (negative, below the minimum) that is "handled cleanly" (C17)
          G(IF p.ack >= MinAckSec THEN "C04,C10" ELSE "C17", e.code = "OK" =>
                       /\ e.body.ack * SecMs = EffDeadline(p.ack)
                       /\ \A w \in W : (w.k = "m.cs" /\ w.name = p.name /\ w.ok) => w.dms = EffDeadline(p.ack)),
          G("C12", e.code \notin {"OK", "NOT_FOUND", "ALREADY_EXISTS", "INVALID_ARGUMENT"} =>
                       \E w \in W : w.k = "m.cs" /\ w.name = p.name /\ w.ok /\ w.si \in DOMAIN S /\ S[w.si].st # "live") }
      [] p.op = "GetSub" ->
        { G("C10", e.code = "NOT_FOUND" => (None \in SubLookups(W, p.name) \/ RacedDeletion(W, p.name))),
          G("C10", e.code = "OK" => SubLookups(W, p.name) \ {None} # {}),
          G("C12", e.code \notin {"OK", "NOT_FOUND"} => RacedDeletion(W, p.name)) }
        \cup (IF e.code = "OK" /\ Cardinality(SubLookups(W, p.name) \ {None}) = 1
              THEN SubEchoGuards(c, e.body, CHOOSE si \in SubLookups(W, p.name) \ {None} : TRUE) ELSE {})
      [] p.op = "DeleteSub" ->
        { G("C10", e.code = "NOT_FOUND" => (None \in SubLookups(W, p.name) \/ RacedDeletion(W, p.name))),
          \* (answered OK without the deletion having happened, with consumers waiting on the
          \* subscription: they are not released either - C12)
          G(IF \E c2 \in DOMAIN pend : pend[c2].e.op \in {"Pull", "StreamOpen"} /\ pend[c2].e.sub = p.name
            THEN "C10,C12" ELSE "C10",
            e.code = "OK" => \E si \in SubLookups(W, p.name) \ {None} :
                       /\ S[si].st = "deleted"
                       /\ ~(p.name \in DOMAIN smap /\ smap[p.name] = si)),
          G("C11", e.code = "OK" => \E si \in SubLookups(W, p.name) \ {None} :
                       si \notin Rng(T[S[si].topic].att)),
          G("C12", e.code \notin {"OK", "NOT_FOUND"} => RacedDeletion(W, p.name)) }
      [] p.op = "ListTopics" -> ListRetGuards(p, e, W, {"m.lt"})
      [] p.op = "ListSubs" -> ListRetGuards(p, e, W, {"m.ls"})
      [] p.op = "ListTopicSubs" ->
        ListRetGuards(p, e, W, {"t.list"}) \cup
        { G("C10", e.code = "NOT_FOUND" => None \in TopicLookups(W, p.topic)) }
      [] p.op = "Pull" ->
        { G("C10", e.code = "NOT_FOUND" => (None \in SubLookups(W, p.sub) \/ RacedDeletion(W, p.sub))),
          G("C10", e.code = "OK" => SubLookups(W, p.sub) \ {None} # {}),
          G("C15", e.code = "OK" => (p.max >= 1 => Len(e.body.msgs) <= p.max)),
          \* a blocking pull answers no later than its wait limit (judged under the paused clock)
          G("C07", (JudgeLate /\ ~p.ri) => e.t - p.t <= WaitLimit + Prompt),
          \* an empty answer only with return_immediately or after the wait limit - a subscription
          \* that is being deleted is no excuse either (that Pull ends with an error status, C12)
          G("C15", (e.code = "OK" /\ e.body.msgs = <<>>) => (p.ri \/ e.t - p.t >= MinWait)),
          G("C03", (e.code = "OK" /\ e.body.msgs # <<>>) =>
                       \E w \in W : w.k = "s.pull" /\ w.si \in SubLookups(W, p.sub) /\ SameDeliveries(e.body.msgs, w.out)),
          G("C12", e.code \notin {"OK", "NOT_FOUND"} => RacedDeletion(W, p.sub)),
          \* a blocked pull on a deleted subscription ends with an error status, promptly
          G("C12", (~p.ri /\ RacedDeletion(W, p.sub) /\ e.code = "OK") => e.body.msgs # <<>>),
          G("C12", (~p.ri /\ RacedDeletion(W, p.sub)) => ReleasedPromptly(W, p.sub, e.t)) }
        \cup (IF e.code = "OK" THEN ContentGuards(e.body.msgs) ELSE {})
      [] p.op = "Ack" ->
        { G("C10", e.code = "NOT_FOUND" => (None \in SubLookups(W, p.sub) \/ RacedDeletion(W, p.sub))),
          \* answered OK: the name was looked up and bound (also for an empty batch)
          G("C10", e.code = "OK" => SubLookups(W, p.sub) \ {None} # {}),
          G("C17", e.code = "INVALID_ARGUMENT" <=> ~AcksAreInts(p)),
          G("C02", e.code = "OK" => \E w \in W : w.k = "s.ack" /\ w.si \in SubLookups(W, p.sub) /\ w.acks = p.acks),
          G("C17", (e.code = "INVALID_ARGUMENT" /\ Solo(c)) => ~\E w \in W : w.k = "s.ack"),
          G("C12", e.code \notin {"OK", "NOT_FOUND", "INVALID_ARGUMENT"} => RacedDeletion(W, p.sub)) }
      [] p.op = "ModAck" ->
        { G("C10", e.code = "NOT_FOUND" => (None \in SubLookups(W, p.sub) \/ RacedDeletion(W, p.sub))),
          G("C10", e.code = "OK" => SubLookups(W, p.sub) \ {None} # {}),
          G("C05", e.code = "INVALID_ARGUMENT" <=> (p.acks # <<>> /\ (~AcksAreInts(p) \/ p.secs < 0))),
          G("C05", (e.code = "INVALID_ARGUMENT" /\ Solo(c)) => ~\E w \in W : w.k = "s.mod"),
          G("C05", e.code = "OK" => \E w \in W : w.k = "s.mod" /\ w.si \in SubLookups(W, p.sub)
                                                  /\ [i \in 1..Len(w.mods) |-> w.mods[i].ack] = p.acks),
          G("C12", e.code \notin {"OK", "NOT_FOUND", "INVALID_ARGUMENT"} => RacedDeletion(W, p.sub)) }
      [] OTHER -> { G("BIND", FALSE) }

(***************************************************************************)
(* Deadline windows of a recorded modification: found from the pending     *)
(* call (unary ModifyAckDeadline or a StreamingPull control message) that  *)
(* carries the same ack ids.                                               *)
(***************************************************************************)
ModCandidates(si, e) ==
    LET ackSeq == [i \in 1..Len(e.mods) |-> e.mods[i].ack] IN
    {[t |-> pend[c].e.t, secs |-> [i \in 1..Len(ackSeq) |-> pend[c].e.secs]] :
        c \in {x \in DOMAIN pend : pend[x].e.op = "ModAck" /\ pend[x].e.sub = S[si].name
                                    /\ pend[x].e.acks = ackSeq /\ pend[x].e.secs >= 0}}
    \cup
    {[t |-> g.t, secs |-> [i \in 1..Len(ackSeq) |-> g.secs]] :
        g \in {x \in gone : x.op = "ModAck" /\ x.sub = S[si].name /\ x.acks = ackSeq /\ x.secs >= 0}}
    \cup
    UNION {{[t |-> pend[c].ctrl[j].t, secs |-> pend[c].ctrl[j].secs] :
              j \in {y \in 1..Len(pend[c].ctrl) : pend[c].ctrl[y].mods = ackSeq
                                                   /\ Len(pend[c].ctrl[y].secs) = Len(ackSeq)}} :
           c \in {x \in DOMAIN pend : pend[x].e.op = "StreamOpen" /\ pend[x].e.sub = S[si].name}}

ModsWith(e, cand) ==
    [i \in 1..Len(e.mods) |->
        [ack |-> e.mods[i].ack, dl |-> e.mods[i].dl,
         lo |-> ModLo(cand.t, cand.secs[i]), hi |-> ModHi(e.t, cand.secs[i])]]

\* A nack by the push dispatcher has no client call.
PushNack(si, e) == S[si].push # "" /\ \A i \in 1..Len(e.mods) : e.mods[i].dl = None

ModsOf(si, e) ==
    LET cands == ModCandidates(si, e)
        good  == {cd \in cands : AllHold(ModGuards(S[si], ModsWith(e, cd), Early))
                                  /\ \A i \in 1..Len(e.mods) : (e.mods[i].dl = None) <=> (cd.secs[i] = 0)}
    IN IF good # {} THEN ModsWith(e, CHOOSE cd \in good : TRUE)
       ELSE IF cands # {} THEN ModsWith(e, CHOOSE cd \in cands : TRUE)
       ELSE [i \in 1..Len(e.mods) |-> [ack |-> e.mods[i].ack, dl |-> e.mods[i].dl, lo |-> e.mods[i].dl, hi |-> e.mods[i].dl]]

\* Every (ack id, seconds) pair some client request for this subscription asks for, with the time
\* the request was sent.
ReqPairs(si) ==
    UNION {{[ack |-> pend[c].e.acks[j], secs |-> pend[c].e.secs, t |-> pend[c].e.t] : j \in 1..Len(pend[c].e.acks)} :
              c \in {x \in DOMAIN pend : pend[x].e.op = "ModAck" /\ pend[x].e.sub = S[si].name /\ pend[x].e.secs >= 0}}
    \cup
    UNION {{[ack |-> g.acks[j], secs |-> g.secs, t |-> g.t] : j \in 1..Len(g.acks)} :
              g \in {x \in gone : x.op = "ModAck" /\ x.sub = S[si].name /\ x.secs >= 0}}
    \cup
    UNION {UNION {{[ack |-> pend[c].ctrl[y].mods[j], secs |-> pend[c].ctrl[y].secs[j], t |-> pend[c].ctrl[y].t] :
                      j \in 1..Len(pend[c].ctrl[y].mods)} :
                  y \in {z \in 1..Len(pend[c].ctrl) : Len(pend[c].ctrl[z].secs) = Len(pend[c].ctrl[z].mods)}} :
           c \in {x \in DOMAIN pend : pend[x].e.op = "StreamOpen" /\ pend[x].e.sub = S[si].name}}

\* The modification the actor applied to one delivery is one that some request asked for THAT
\* delivery: a nack where zero seconds were asked, else a deadline in the window of the seconds asked.
Explained(si, e, i) ==
    \E rp \in ReqPairs(si) :
        /\ rp.ack = e.mods[i].ack
        /\ IF rp.secs = 0 THEN e.mods[i].dl = None
           ELSE e.mods[i].dl # None /\ e.mods[i].dl >= ModLo(rp.t, rp.secs) - Early /\ e.mods[i].dl <= ModHi(e.t, rp.secs)

\* What the turn was asked to do to outstanding deliveries has happened when the turn is over: a
\* delivery with a nack among its entries is no longer outstanding and its message is queued; any
\* other carries the deadline of its last entry ("replacing the previous deadline").
ModApplied(si, e) ==
    \A a \in {e.mods[i].ack : i \in 1..Len(e.mods)} \cap DOMAIN S[si].lease :
        LET idx  == {i \in 1..Len(e.mods) : e.mods[i].ack = a}
            last == CHOOSE i \in idx : \A j \in idx : j <= i
        IN IF \E i \in idx : e.mods[i].dl = None
           THEN /\ ~\E y \in LeaseSetOfLog(e.st) : y[1] = a
                /\ S[si].lease[a].m \in SeqSet(e.st.backlog)
           ELSE \E y \in LeaseSetOfLog(e.st) : y[1] = a /\ y[3] = e.mods[last].dl

ModCallGuards(si, e) ==
    LET cands == ModCandidates(si, e) IN
    { G("C05", S[si].st = "live" => ModApplied(si, e)),
      \* the list the actor applied is the list of one request; if it is not (an implementation may
      \* merge or drop repeated ids), every single modification must still be one a request asked for
      \* that delivery - seconds meant for one delivery applied to another end or stretch a lease the
      \* client did not ask to change (C03, C05)
      G("C03,C05", cands # {} \/ PushNack(si, e) \/ e.mods = <<>> \/ \A i \in 1..Len(e.mods) : Explained(si, e, i)),
      G("C05", cands # {} => \E cd \in cands : \A i \in 1..Len(e.mods) : (e.mods[i].dl = None) <=> (cd.secs[i] = 0)) }

(***************************************************************************)
(* Guards and effect of one event.                                         *)
(***************************************************************************)
SiKnown(e) == e.si \in DOMAIN S

(***************************************************************************)
(* HTTP push (C14).                                                        *)
(***************************************************************************)
PushSuccess == {102, 200, 201, 202, 204}
PushGrace == 250
\* The newest incarnation that carried the name a POST body mentions.
SubsNamed(name) == {si \in DOMAIN S : S[si].name = name}
NewestNamed(name) == CHOOSE si \in SubsNamed(name) : \A x \in SubsNamed(name) : x <= si

LastAnswer(si, m) == IF <<si, m>> \in DOMAIN httpLast THEN httpLast[<<si, m>>] ELSE None

HttpGuards(e) ==
    IF SubsNamed(e.sub) = {} THEN { G("C14", FALSE) } ELSE
    LET si == NewestNamed(e.sub) IN
    { \* only subscriptions with a push endpoint are POSTed to
      G("C14", S[si].push # ""),
      \* pushing stops when the subscription is deleted (a request already on the wire may land)
      G("C14", S[si].st = "live" \/ (si \in DOMAIN delT /\ e.t - delT[si] <= PushGrace)),
      \* a POST is a delivery that is outstanding right now: never again after it was accepted
      G("C14", S[si].st = "live" => e.m \in LeasedMsgs(S[si])),
      G("C14", LastAnswer(si, e.m) \notin PushSuccess),
      \* JSON naming the subscription, base64 data, the message id (in both spellings)
      G("C14", e.method = "POST" /\ e.json /\ e.b64ok /\ e.same_id),
      \* ... POSTed to the endpoint of the subscription it names (not to that of a sibling on the topic)
      G("C14", "ep" \in DOMAIN e => e.ep = S[si].push),
      G("C09", e.m \in DOMAIN pubs),
      G("C09", e.m \in DOMAIN content => content[e.m] = [data |-> e.data, attrs |-> e.attrs]) }

\* Is there a client call (unary or on a stream) that asks for exactly this acknowledgement?
ClientAckPending(si, acks) ==
    \/ \E c \in DOMAIN pend : pend[c].e.op = "Ack" /\ pend[c].e.sub = S[si].name /\ pend[c].e.acks = acks
    \/ \E g \in gone : g.op = "Ack" /\ g.sub = S[si].name /\ g.acks = acks
    \/ \E c \in DOMAIN pend : pend[c].e.op = "StreamOpen" /\ pend[c].e.sub = S[si].name
                                 /\ \E j \in 1..Len(pend[c].ctrl) : pend[c].ctrl[j].acks = acks

\* The push dispatcher acknowledges only what the endpoint accepted, and gives back (nacks)
\* only what it did not accept.
PushAckGuards(e) ==
    IF ~SiKnown(e) \/ S[e.si].push = "" \/ ClientAckPending(e.si, e.acks) THEN {} ELSE
    { G("C14", \A i \in 1..Len(e.acks) : e.acks[i] \in DOMAIN S[e.si].lease =>
                  LastAnswer(e.si, S[e.si].lease[e.acks[i]].m) \in PushSuccess) }
PushNackGuards(e) ==
    IF ~SiKnown(e) \/ S[e.si].push = "" \/ ModCandidates(e.si, e) # {} THEN {} ELSE
    { G("C14", \A i \in 1..Len(e.mods) : e.mods[i].ack \in DOMAIN S[e.si].lease =>
                  LastAnswer(e.si, S[e.si].lease[e.mods[i].ack].m) \notin PushSuccess),
      \* an exchange the endpoint has not answered yet (held, or its answer is still on its way) has
      \* not failed before the ack deadline: giving the message back earlier makes the next round
      \* POST it again although nothing failed
      G("C14", \A i \in 1..Len(e.mods) :
                  (/\ e.mods[i].ack \in DOMAIN S[e.si].lease
                   /\ LastAnswer(e.si, S[e.si].lease[e.mods[i].ack].m) < -1)
                  => e.t + Early >= S[e.si].lease[e.mods[i].ack].lo) }
\* The endpoint sends a delayed answer: it counts if no newer exchange for that message was opened
\* meanwhile and the delivery is still outstanding (the answer arrived within the deadline).
HttpAnswered(e) ==
    IF SubsNamed(e.sub) = {} THEN httpLast ELSE
    LET si == NewestNamed(e.sub) IN
    IF LastAnswer(si, e.m) = -(100 + e.attempt) /\ S[si].st = "live" /\ e.m \in LeasedMsgs(S[si])
    THEN Put(httpLast, <<si, e.m>>, e.code) ELSE httpLast

\* Control messages of open streams and the actor turns that carry them out.
CtrlWaiting(c, j, ids, isAck) ==
    IF isAck THEN pend[c].ctrl[j].acks = ids /\ ~pend[c].ctrl[j].doneA
    ELSE pend[c].ctrl[j].mods = ids /\ ~pend[c].ctrl[j].doneM
CtrlDone(sub, ids, isAck) ==
    LET cs == {c \in DOMAIN pend : pend[c].e.op = "StreamOpen" /\ pend[c].e.sub = sub
                                     /\ \E j \in 1..Len(pend[c].ctrl) : CtrlWaiting(c, j, ids, isAck)} IN
    IF cs = {} THEN pend ELSE
    LET c == CHOOSE x \in cs : TRUE
        j == CHOOSE y \in 1..Len(pend[c].ctrl) :
                 CtrlWaiting(c, y, ids, isAck) /\ \A z \in 1..(y - 1) : ~CtrlWaiting(c, z, ids, isAck) IN
    IF isAck THEN [pend EXCEPT ![c].ctrl[j].doneA = TRUE] ELSE [pend EXCEPT ![c].ctrl[j].doneM = TRUE]
\* At rest: every well-formed control message sent on a stream that is still open (no malformed
\* message before it, subscription alive) has been carried out.
CtrlPartDone(c, isAck) ==
    LET es == pend[c].ctrl IN
    \A j \in 1..Len(es) : (\A k \in 1..j : ~es[k].mal) => (IF isAck THEN es[j].doneA ELSE es[j].doneM)
StreamAlive(c) ==
    LET p == pend[c].e IN
    /\ p.op = "StreamOpen" /\ p.sub \in DOMAIN smap /\ S[smap[p.sub]].st = "live"
    /\ smap[p.sub] \in SubLookups(Win(c), p.sub)

\* The message ids in client-side events are bound to the server's by OBSERVATION: the topic reports
\* every id it issues together with its spelling on the wire (t.accept: ids / wire); a client-side
\* event names messages by that spelling (raw) and is translated through the map built from those
\* reports.  A spelling nobody issued denotes no message (<<-1, -1>>).
MsgOfWire(raw) == IF raw \in DOMAIN wire THEN wire[raw] ELSE <<-1, -1>>
NormMsgs(msgs) == [i \in 1..Len(msgs) |-> IF "raw" \in DOMAIN msgs[i] THEN [msgs[i] EXCEPT !.m = MsgOfWire(msgs[i].raw)] ELSE msgs[i]]
Norm(e) ==
    IF e.k = "ret" /\ "raw" \in DOMAIN e.body /\ "ids" \in DOMAIN e.body
    THEN [e EXCEPT !.body.ids = [i \in 1..Len(e.body.raw) |-> MsgOfWire(e.body.raw[i])]]
    ELSE IF e.k = "ret" /\ "msgs" \in DOMAIN e.body THEN [e EXCEPT !.body.msgs = NormMsgs(@)]
    ELSE IF e.k = "srecv" THEN [e EXCEPT !.msgs = NormMsgs(@)]
    ELSE IF e.k \in {"http", "httpans"} /\ "raw" \in DOMAIN e THEN [e EXCEPT !.m = MsgOfWire(e.raw)]
    ELSE e

PubN(p) == IF "n" \in DOMAIN p THEN p.n ELSE Len(p.msgs)

QuietTag(isPull, abandoned) ==
    CASE isPull /\ abandoned -> "C06,C15,C16"
      [] isPull /\ ~abandoned -> "C06,C15"
      [] ~isPull /\ abandoned -> "C06,C16"
      [] OTHER -> "C06"

LateGuards(e) ==
    { G("BIND", e.t >= now),
      G("C04", JudgeLate =>
            \A si \in {x \in DOMAIN S : S[x].st = "live"} : \A a \in DOMAIN S[si].lease :
                \/ S[si].lease[a].md
                \/ e.t <= S[si].lease[a].hi
                \/ (e.k = "s.expire" /\ e.si = si /\ a \in SeqSet(e.acks))),
      \* ... the same for a delivery whose deadline was set by a ModifyAckDeadline (C05 as well)
      G("C04,C05", JudgeLate =>
            \A si \in {x \in DOMAIN S : S[x].st = "live"} : \A a \in DOMAIN S[si].lease :
                \/ ~S[si].lease[a].md
                \/ e.t <= S[si].lease[a].hi
                \/ (e.k = "s.expire" /\ e.si = si /\ a \in SeqSet(e.acks))) }

EvGuards(e) ==
    CASE e.k = "m.ct" -> MgrCreateTopic_G(e.name, e.ti, e.ok)
      [] e.k = "m.gt" -> MgrGetTopic_G(e.name, e.ti)
      [] e.k = "m.rt" -> MgrRemoveTopic_G(e.name, e.ti)
      [] e.k = "m.lt" -> MgrListTopics_G(ProjOf, e.project, e.skip, e.size, e.out, e.next)
      [] e.k = "m.cs" -> MgrInsertSub_G(e.name, e.si, e.ti, e.dms, e.push, e.ok)
      [] e.k = "m.gs" -> MgrGetSub_G(e.name, e.si)
      [] e.k = "m.rs" -> MgrRemoveSub_G(e.name, e.si)
      [] e.k = "m.ls" -> MgrListSubs_G(ProjOf, e.project, e.skip, e.size, e.out, e.next)
      [] e.k = "r.set" ->
            LET after == RegAfterSet(e.name, e.set, e.endpoint) IN
            { G("DRIFT", e.endpoint = (IF e.name \in DOMAIN after THEN after[e.name] ELSE "")),
              \* a live push subscription is never unregistered (only one that is being deleted is)
              G("C14", ~e.set => ~(e.name \in DOMAIN smap /\ S[smap[e.name]].st = "live" /\ S[smap[e.name]].push # "")) }
      [] e.k = "t.accept" -> TopicAccept_G(e.ti, e.ids, SeqSet(e.fan)) \cup
            \* one accepting turn of the topic = one whole Publish request (in flight, or abandoned by
            \* its caller): a turn that accepts only a part of a request makes the request's fate
            \* depend on when its caller goes away (C16) and lets other requests in between (C08)
            (IF "wire" \in DOMAIN e
             THEN \* no two distinct published messages ever share an id - as clients see the ids
                  { G("C09", Len(e.wire) = Len(e.ids) /\ NoDup(e.wire)),
                    G("C09", \A i \in 1..Len(e.wire) : e.wire[i] \notin DOMAIN wire) }
             ELSE {}) \cup
            { G(IF \E g \in gone : g.op = "Publish" THEN "C08,C16" ELSE "C08",
                \/ \E c \in DOMAIN pend : pend[c].e.op = "Publish" /\ PubN(pend[c].e) = Len(e.ids)
                \/ \E g \in gone : g.op = "Publish" /\ PubN(g) = Len(e.ids)) }
      [] e.k = "t.attach" ->
            IF "skipped" \in DOMAIN e /\ e.skipped
            THEN \* the topic refused the attach: only a subscription that is on its way out may be refused
                 TopicAttach_G(e.ti, e.name, e.si) \cup
                 { G("C11", e.si \in DOMAIN S => S[e.si].st # "live") }
            ELSE
            TopicAttach_G(e.ti, e.name, e.si) \cup
            { G("DRIFT", e.ti \in DOMAIN T => SeqSet(e.attached) = Rng(PutIfAbsent(T[e.ti].att, e.name, e.si))) }
      [] e.k = "t.remove" ->
            TopicRemove_G(e.ti, e.name) \cup
            { G("DRIFT", e.ti \in DOMAIN T =>
                    SeqSet(e.attached) = Rng(IF e.name \in DOMAIN T[e.ti].att THEN Without(T[e.ti].att, e.name) ELSE T[e.ti].att)) }
      [] e.k = "t.delete" -> TopicDelete_G(e.ti, e.first)
      [] e.k = "t.list" -> TopicList_G(e.ti, e.skip, e.size, e.out, e.next)
      [] e.k = "s.post" ->
            SubPost_G(e.si, e.ids) \cup
            (IF SiKnown(e) /\ S[e.si].st = "live"
             THEN { G("C08", SelectSeq(e.st.backlog, LAMBDA m : m \notin S[e.si].seen)
                               = SelectSeq(S[e.si].queue, LAMBDA m : m \notin S[e.si].seen) \o e.ids) }
             ELSE {}) \cup
            (IF SiKnown(e) /\ (e.ids = <<>> \/ S[e.si].inbox # <<>>)
             THEN SubStateGuards(IF e.ids = <<>> THEN S[e.si] ELSE SubAfterPost(S[e.si], e.ids), e.st, e.t) ELSE {})
      [] e.k = "s.pull" ->
            \* messages are handed out on behalf of SOMEBODY: a consumer whose call is pending, or one
            \* that was abandoned so recently that the server may not know yet (since the last moment
            \* of rest), or the push dispatcher - not a consumer that went away long ago (its wake-up
            \* belongs to the consumers that still wait: C06; and its deliveries are leased to nobody)
            (IF SiKnown(e) /\ e.out # <<>>
             \* (if the push registry lists the name although this subscription has no push endpoint, it is
             \* the push dispatcher that pulls it: "subscriptions without a push endpoint are never POSTed to", C14)
             THEN { G(IF S[e.si].name \in DOMAIN reg THEN "C14" ELSE "C06,C16",
                      LET nm == S[e.si].name
                          lastq == IF "lastq" \in DOMAIN hdr THEN hdr.lastq ELSE 0 IN
                      \/ \E c \in DOMAIN pend : pend[c].e.op \in {"Pull", "StreamOpen"} /\ pend[c].e.sub = nm
                      \/ \E g \in gone : g.op \in {"Pull", "StreamOpen"} /\ g.sub = nm /\ g.goneat > lastq
                      \/ S[e.si].push # "") }
             ELSE {}) \cup
            SubPull_G(e.si, e.max, e.out, e.st.backlog, e.t,
                      SiKnown(e) /\ \E g \in gone : g.op \in {"Pull", "StreamOpen"} /\ g.sub = S[e.si].name, Early) \cup
            (IF SiKnown(e)
             THEN SubStateGuards(IF S[e.si].st = "live" THEN SubAfterPull(S[e.si], e.out, e.st.backlog, e.t) ELSE S[e.si], e.st, e.t)
             ELSE {})
      [] e.k = "s.ack" ->
            SubAck_G(e.si, SeqSet(e.acks)) \cup PushAckGuards(e) \cup
            (IF SiKnown(e)
             THEN SubStateGuards(IF S[e.si].st = "live" THEN SubAfterAck(S[e.si], SeqSet(e.acks)) ELSE S[e.si], e.st, e.t)
             ELSE {})
      [] e.k = "s.mod" ->
            IF ~SiKnown(e) THEN { G("BIND", FALSE) } ELSE
            LET mods == ModsOf(e.si, e) IN
            SubModify_G(e.si, mods, e.st.backlog, Early) \cup ModCallGuards(e.si, e) \cup PushNackGuards(e) \cup
            SubStateGuards(IF S[e.si].st = "live"
                           THEN [SubAfterMods(S[e.si], mods) EXCEPT !.queue = e.st.backlog] ELSE S[e.si], e.st, e.t)
      [] e.k = "s.expire" ->
            SubExpire_G(e.si, e.acks, e.st.backlog, JudgeLate, e.t, Early) \cup
            (IF SiKnown(e) /\ S[e.si].st = "live" /\ SeqSet(e.acks) \subseteq DOMAIN S[e.si].lease
             THEN SubStateGuards([SubAfterExpire(S[e.si], e.acks) EXCEPT !.queue = e.st.backlog], e.st, e.t) ELSE {})
      [] e.k = "s.stats" ->
            IF SiKnown(e) THEN SubStateGuards(S[e.si], e.st, e.t) ELSE { G("BIND", FALSE) }
      [] e.k \in {"s.del0", "s.del1", "s.exit"} -> { G("BIND", SiKnown(e)) }
      \* the actor's Delete handler returns: a deletion that began is carried through - it does not
      \* fail and leave the subscription half deleted (registered under its name, serving nothing)
      [] e.k = "s.delret" -> { G("BIND", SiKnown(e)),
                               G("C10,C11", (SiKnown(e) /\ ~e.ok) => S[e.si].st # "deleting") }
      [] e.k \in {"t.start", "s.start", "t.pubdone", "t.exit", "mark", "sopened", "sclose", "sleft"} -> {}
      [] e.k = "inv" -> { G("BIND", e.c \notin DOMAIN pend) }
      [] e.k = "srecv" ->
            IF e.c \notin DOMAIN pend THEN { G("BIND", FALSE) } ELSE
            LET p == pend[e.c].e
                W == Win(e.c) IN
            { G("C15", p.max >= 1 => Len(e.msgs) <= p.max),
              G("C03", e.msgs # <<>> /\ \E w \in W : w.k = "s.pull" /\ w.si \in SubLookups(W, p.sub)
                                                      /\ SameDeliveries(e.msgs, w.out)) }
            \cup ContentGuards(e.msgs)
      [] e.k = "ssend" -> {}
      [] e.k = "send" ->
            IF e.c \notin DOMAIN pend THEN { G("BIND", FALSE) } ELSE
            LET p == pend[e.c].e
                W == Win(e.c) IN
            { G("C10", (~e.opened /\ e.code = "NOT_FOUND") => (None \in SubLookups(W, p.sub) \/ RacedDeletion(W, p.sub))),
              \* a stream on a deleted subscription ends with NOT_FOUND, never silently
              G("C12", (e.opened /\ RacedDeletion(W, p.sub)) => e.code = "NOT_FOUND"),
              G("C12", e.opened => e.code # "EOS"),
              \* malformed first request / malformed control message: the stream ends with INVALID_ARGUMENT
              G("C17", (~e.opened /\ (BadSubField(p, "sub") \/ p.max > 65535 \/ p.max < 0)) => e.code = "INVALID_ARGUMENT"),
              G("C17", (e.opened /\ pend[e.c].ctrl # <<>> /\ pend[e.c].ctrl[Len(pend[e.c].ctrl)].mal
                          /\ ~RacedDeletion(W, p.sub)) => e.code = "INVALID_ARGUMENT"),
              G("C17", e.code \notin {"UNAVAILABLE", "UNKNOWN"}),
              \* a rejected (malformed) control message changes no state: neither its acknowledgements
              \* nor its modifications were carried out
              G("C17", \A j \in 1..Len(pend[e.c].ctrl) :
                          pend[e.c].ctrl[j].mal =>
                              /\ (pend[e.c].ctrl[j].acks # <<>> => ~pend[e.c].ctrl[j].doneA)
                              /\ (pend[e.c].ctrl[j].mods # <<>> => ~pend[e.c].ctrl[j].doneM)),
              G("C12", (e.opened /\ RacedDeletion(W, p.sub)) => ReleasedPromptly(W, p.sub, e.t)) }
      [] e.k = "ret" -> IF e.c \in DOMAIN pend THEN RetGuards(e.c, e) ELSE { G("BIND", FALSE) }
      [] e.k \in {"cancel", "lret"} -> {}
      [] e.k = "http" -> HttpGuards(e)
      [] e.k = "httpans" -> {}
      [] e.k = "quiet" ->
            \* C06: at rest, no message sits in the backlog of a live subscription while a
            \* consumer that can take it is waiting on that subscription
            \* (when a consumer of that subscription was abandoned earlier, the stuck one is also a
            \* subscription wedged by an abandoned request: C16)
            \* (a blocked Pull that does not return although a message is available: C15 as well)
            \* (... and when the waiting Pull's batch limit is out of range, the out-of-range number made
            \* a request hang: C17)
            { G(QuietTag(pend[c].e.op = "Pull", \E g \in gone : g.op \in {"Pull", "StreamOpen"} /\ g.sub = pend[c].e.sub)
                  \o (IF pend[c].e.op = "Pull" /\ (pend[c].e.max < 1 \/ pend[c].e.max > 65535) THEN ",C17" ELSE ""),
                    LET p == pend[c].e IN
                    (/\ (p.op = "Pull" /\ ~p.ri) \/ p.op = "StreamOpen"
                     /\ p.sub \in DOMAIN smap /\ S[smap[p.sub]].st = "live"
                     /\ smap[p.sub] \in SubLookups(Win(c), p.sub))
                    => (S[smap[p.sub]].queue = <<>> /\ S[smap[p.sub]].inbox = <<>>)) : c \in DOMAIN pend }
            \cup
            \* C07: control messages sent on an open StreamingPull get processed (C05 / C03 for a
            \* deadline modification that is not applied: the delivery expires although the client
            \* extended it)
            \* C01: at rest every batch a topic accepted has reached the subscriptions it was fanned
            \* out to (a topic answers a Publish only after all posts): nothing accepted is pending
            \* for a live subscription (C16 too when a request was abandoned earlier)
            { G(IF gone # {} THEN "C01,C16" ELSE "C01", \A si \in DOMAIN S : S[si].st = "live" => S[si].inbox = <<>>),
              \* ... and the push registry lists exactly the live subscriptions with a push endpoint
              G(IF gone # {} THEN "C14,C16" ELSE "C14", C14_RegistryExact),
              \* ... and every subscription that exists is attached to its (live) topic, the topic-side
              \* lists contain exactly the live subscriptions
              G("C16", C16_Attached),
              G(IF gone # {} THEN "C11,C16" ELSE "C11", C11_AttachedExact) } \cup
            { G("C07", \A c \in DOMAIN pend : StreamAlive(c) => CtrlPartDone(c, TRUE)),
              G("C03,C05,C07", \A c \in DOMAIN pend : StreamAlive(c) => CtrlPartDone(c, FALSE)) }
      [] e.k = "hang" ->
            { G("C07", FALSE) } \cup
            (IF e.c \in DOMAIN pend /\ pend[e.c].e.op \in {"StreamOpen", "Pull"}
                /\ RacedDeletion(Win(e.c), pend[e.c].e.sub)
             THEN { G("C12", FALSE) } ELSE {}) \cup
            \* a request that hangs after another request was abandoned: something was left wedged (C16)
            (IF gone # {} THEN { G("C16", FALSE) } ELSE {}) \cup
            \* a stream that received a malformed control message ends with INVALID_ARGUMENT
            (IF e.c \in DOMAIN pend /\ pend[e.c].e.op = "StreamOpen"
                /\ \E j \in 1..Len(pend[e.c].ctrl) : pend[e.c].ctrl[j].mal
             THEN { G("C17", FALSE) } ELSE {})
      [] e.k = "panic" ->
            \* never a panic; a panic while a list call is being served also breaks "any decodable
            \* token yields a valid page"
            { G("C17", FALSE) } \cup
            (IF \E c \in DOMAIN pend : pend[c].e.op \in {"ListTopics", "ListSubs", "ListTopicSubs"}
             THEN { G("C13", FALSE) } ELSE {})
      [] e.k = "abort" -> { G("C17", FALSE) }      \* the server process died
      \* nothing in the process moved any more with calls outstanding (not even the harness' own
      \* time-outs): some call is never answered
      [] e.k = "stall" -> { G("C07", FALSE) } \cup
            (IF \E c \in DOMAIN pend : pend[c].e.op = "DeleteSub" THEN { G("C10", FALSE) } ELSE {})
      [] e.k = "end" ->
            { G("C07", pend = Empty),
              \* everything a live subscription was ever posted has been delivered and acknowledged
              G("C01", \A si \in DOMAIN S : (S[si].st = "live" /\ "drained" \in DOMAIN hdr) =>
                            (S[si].posted \subseteq S[si].acked /\ S[si].inbox = <<>>)),
              \* push: every message of a live push subscription was POSTed until accepted
              G("C14", ("push" \in DOMAIN hdr.meta /\ hdr.meta.push) =>
                            \A si \in DOMAIN S : (S[si].st = "live" /\ S[si].push # "" /\ S[si].push # "dead") =>
                                (S[si].posted \subseteq S[si].acked /\ S[si].inbox = <<>>)),
              G("C11", C11_AttachedExact),
              \* no call is pending any more: a subscription whose deletion began but never finished is
              \* stuck half deleted for ever (still registered under its name, serves nothing)
              G("C10,C11", \A si \in DOMAIN S : S[si].st # "deleting"),
              \* (after an abandoned request: a subscription that exists but is not registered for push is
              \* half created - C16)
              G(IF gone # {} THEN "C14,C16" ELSE "C14", C14_RegistryExact),
              G("C16", C16_Attached) }
      [] OTHER -> { G("BIND", FALSE) }

\* C16: "no lost message" when a request was abandoned.  A turn of a subscription's actor that
\* loses a message (conservation, an outstanding delivery that vanishes) while a request to that
\* subscription - or a publish - was abandoned earlier in the history also counts for C16.
AbandonedNear(si) ==
    \E g \in gone : \/ (g.op \in {"Pull", "StreamOpen", "Ack", "ModAck"} /\ g.sub = S[si].name)
                     \/ g.op = "Publish"
\* C11: "after DeleteTopic the topic's subscriptions keep serving the messages they already hold": a
\* loss in a turn of a subscription whose topic was deleted counts for C11 as well.
Orphaned(si) == S[si].topic \in DOMAIN T /\ T[S[si].topic].deleted
\* C02: "the acknowledgement touches nothing else ... every other subscription's copy of the same
\* message keeps its state": a loss in an expiry / modify turn that concerns a message which was
\* acknowledged on ANOTHER subscription counts for C02 as well.
TurnAcks(e) == IF e.k = "s.expire" THEN SeqSet(e.acks)
               ELSE IF e.k = "s.mod" THEN {e.mods[i].ack : i \in 1..Len(e.mods)} ELSE {}
AckedElsewhere(e) ==
    \E a \in TurnAcks(e) : a \in DOMAIN S[e.si].lease /\
        \E si2 \in DOMAIN S \ {e.si} : S[e.si].lease[a].m \in S[si2].acked
Retag16(e, gs) ==
    IF e.k \in {"s.post", "s.pull", "s.ack", "s.mod", "s.expire"} /\ SiKnown(e)
    THEN LET extra == (IF AbandonedNear(e.si) THEN ",C16" ELSE "") \o (IF Orphaned(e.si) THEN ",C11" ELSE "")
                      \* (an acknowledge turn that loses anything else than what it acknowledged: "the
                      \* acknowledgement touches nothing else")
                      \o (IF AckedElsewhere(e) \/ e.k = "s.ack" THEN ",C02" ELSE "")
         IN IF extra = "" THEN gs
            ELSE {IF g[1] \in {"C01", "C04", "C01,C04", "C01,C04,C05"} THEN <<g[1] \o extra, g[2]>> ELSE g : g \in gs}
    ELSE gs

LightNb(si) == IF si \in DOMAIN lightNb THEN lightNb[si] ELSE 0
LightNl(si) == IF si \in DOMAIN lightNl THEN lightNl[si] ELSE 0
LightGuards(e) ==
    { G("BIND", e.t >= now) } \cup
    \* conservation on sizes (C01): nothing is lost or invented by a turn
    (IF e.k \in {"s.post", "s.pull", "s.ack", "s.mod", "s.expire"} /\ "nb" \in DOMAIN e.st /\ ~e.st.deleted /\ LightNb(e.si) >= 0
     THEN CASE e.k = "s.post" -> { G("C01", e.st.nb = LightNb(e.si) + Len(e.ids) /\ e.st.nl = LightNl(e.si)) }
            \* (messages taken from the backlog but not handed out come back later, behind messages
            \* published after them: C08 as well)
            [] e.k = "s.pull" -> { G("C01,C08", e.st.nb = LightNb(e.si) - e.nout /\ e.st.nl = LightNl(e.si) + e.nout) }
            [] e.k = "s.ack" -> { G("C01", e.st.nb = LightNb(e.si) /\ e.st.nl <= LightNl(e.si)) }
            [] OTHER -> { G("C01", e.st.nb + e.st.nl = LightNb(e.si) + LightNl(e.si)) }
     ELSE {}) \cup
    CASE e.k = "s.pull" -> { G("C15", e.max >= 1 => e.nout <= e.max) }
      [] e.k = "ret" ->
            IF e.c \in DOMAIN pend /\ pend[e.c].e.op = "Pull" /\ e.code = "OK"
            THEN { G("C15", pend[e.c].e.max >= 1 => e.body.n <= pend[e.c].e.max),
                   G("C15", e.body.n = 0 => (pend[e.c].e.ri \/ e.t - pend[e.c].e.t >= MinWait)) }
            ELSE {}
      [] e.k = "hang" -> { G("C07", FALSE) }
      [] e.k \in {"panic", "abort"} -> { G("C17", FALSE) }
      [] e.k = "stall" -> { G("C07", FALSE) }
      [] e.k = "end" -> { G("C07", pend = Empty) }
      [] e.k = "quiet" ->
            \* C06 on sizes: at rest no waiting consumer's subscription reports a non-empty backlog
            { G("C06", \A c \in DOMAIN pend :
                    LET p == pend[c].e IN
                    ((p.op = "Pull" /\ ~p.ri) \/ p.op = "StreamOpen") =>
                        \A si \in SubLookups(Win(c), p.sub) \ {None} : (si \in DOMAIN lightNb => lightNb[si] <= 0)) }
      [] OTHER -> {}

LightApply(e) ==
    /\ now' = e.t
    /\ UNCHANGED <<tmap, smap, T, S, torder, sorder, reg, pubs, tok, content, ptime, gone, httpLast, delT, obsDel, wire>>
    /\ lightNb' = IF e.k \in {"s.post", "s.pull", "s.ack", "s.mod", "s.expire", "s.stats"} /\ "nb" \in DOMAIN e.st
                  THEN Put(lightNb, e.si, IF e.st.deleted THEN None ELSE e.st.nb)
                  ELSE IF e.k = "s.del1" THEN Put(lightNb, e.si, None) ELSE lightNb
    /\ lightNl' = IF e.k \in {"s.post", "s.pull", "s.ack", "s.mod", "s.expire", "s.stats"} /\ "nl" \in DOMAIN e.st
                  THEN Put(lightNl, e.si, e.st.nl) ELSE lightNl
    /\ pend' =
         CASE e.k = "inv" -> Put(pend, e.c, [e |-> e, from |-> l, ctrl |-> <<>>])
           [] e.k \in {"ret", "cancel", "send", "lret"} -> IF e.c \in DOMAIN pend THEN Without(pend, e.c) ELSE pend
           [] OTHER -> pend

\* The model state of subscription e.si after the turn, with the recorded state adopted.
SubPostState(e) ==
    LET s == S[e.si] IN
    CASE e.k = "s.post" -> Adopt(IF e.ids = <<>> THEN s ELSE SubAfterPost([s EXCEPT !.inbox = Tail(@)], e.ids), e.st)
      [] e.k = "s.pull" -> Adopt(IF s.st = "live" THEN SubAfterPull(s, e.out, e.st.backlog, e.t) ELSE s, e.st)
      [] e.k = "s.ack" -> Adopt(IF s.st = "live" THEN SubAfterAck(s, SeqSet(e.acks)) ELSE s, e.st)
      [] e.k = "s.mod" -> Adopt(IF s.st = "live" THEN [SubAfterMods(s, ModsOf(e.si, e)) EXCEPT !.queue = e.st.backlog] ELSE s, e.st)
      [] e.k = "s.expire" -> Adopt([SubAfterExpire(s, e.acks) EXCEPT !.queue = e.st.backlog], e.st)
      [] e.k = "s.stats" -> Adopt(s, e.st)

EvApply(e) ==
    /\ now' = e.t
    /\ CASE e.k = "m.ct" -> MgrCreateTopic_A(e.name, e.ti, e.ok)
         [] e.k = "m.rt" -> MgrRemoveTopic_A(e.name, e.ti)
         [] e.k = "m.cs" -> MgrInsertSub_A(e.name, e.si, e.ti, e.dms, e.push, e.ok)
         [] e.k = "m.rs" -> MgrRemoveSub_A(e.name, e.si)
         [] e.k = "r.set" -> RegSet_A(e.name, e.set, e.endpoint)
         [] e.k = "t.accept" -> TopicAccept_A(e.ti, e.ids, SeqSet(e.fan))
         [] e.k = "t.attach" -> IF "skipped" \in DOMAIN e /\ e.skipped
                                THEN UNCHANGED <<tmap, smap, T, S, torder, sorder, reg, pubs>>
                                ELSE TopicAttach_A(e.ti, e.name, e.si)
         [] e.k = "t.remove" -> TopicRemove_A(e.ti, e.name)
         [] e.k = "t.delete" -> TopicDelete_A(e.ti, e.first)
         [] e.k \in {"s.post", "s.pull", "s.ack", "s.mod", "s.expire", "s.stats"} ->
               /\ S' = [S EXCEPT ![e.si] = SubPostState(e)]
               /\ UNCHANGED <<tmap, smap, T, torder, sorder, reg, pubs>>
         [] e.k = "s.del0" -> SubDeleteBegin_A(e.si)
         [] e.k = "s.del1" -> SubDeleteEnd_A(e.si)
         [] e.k = "s.exit" -> SubExit_A(e.si)
         [] OTHER -> UNCHANGED <<tmap, smap, T, S, torder, sorder, reg, pubs>>
    /\ pend' =
         CASE e.k = "inv" -> Put(pend, e.c, [e |-> e, from |-> l, ctrl |-> <<>>])
           [] e.k = "ret" -> Without(pend, e.c)
           [] e.k \in {"cancel", "send", "lret"} -> IF e.c \in DOMAIN pend THEN Without(pend, e.c) ELSE pend
           [] e.k = "ssend" ->
                 IF e.c \in DOMAIN pend
                 THEN [pend EXCEPT ![e.c].ctrl = Append(@, [t |-> e.t, acks |-> e.acks, mods |-> e.mods, secs |-> e.secs,
                                                               mal |-> (e.bad > 0 \/ e.rsub # "" \/ e.rmax > 0 \/ e.rmaxb > 0
                                                                          \/ Len(e.secs) # Len(e.mods)
                                                                          \/ \E i \in 1..Len(e.secs) : e.secs[i] < 0),
                                                               \* processed by the subscription's actor yet?  (nothing to do for
                                                               \* an empty part or a message the client could not send any more)
                                                               doneA |-> (e.acks = <<>> \/ ~e.open),
                                                               doneM |-> (e.mods = <<>> \/ ~e.open)])]
                 ELSE pend
           \* an acknowledge / modify turn of the actor carries out the oldest control message with
           \* exactly these ack ids that is still waiting on a stream of that subscription
           [] e.k = "s.ack" /\ SiKnown(e) -> CtrlDone(S[e.si].name, e.acks, TRUE)
           [] e.k = "s.mod" /\ SiKnown(e) -> CtrlDone(S[e.si].name, [i \in 1..Len(e.mods) |-> e.mods[i].ack], FALSE)
           [] OTHER -> pend
    /\ tok' =
         IF e.k = "ret" /\ pend[e.c].e.op \in {"ListTopics", "ListSubs", "ListTopicSubs"}
         THEN TokAfter(pend[e.c].e, e, Win(e.c),
                       CASE pend[e.c].e.op = "ListTopics" -> {"m.lt"}
                         [] pend[e.c].e.op = "ListSubs" -> {"m.ls"}
                         [] OTHER -> {"t.list"})
         ELSE tok
    /\ content' =
         IF e.k = "ret" /\ e.code = "OK" /\ pend[e.c].e.op = "Publish"
         THEN LET p == pend[e.c].e IN
              [m \in (DOMAIN content) \cup SeqSet(e.body.ids) |->
                  IF m \in DOMAIN content THEN content[m]
                  ELSE LET i == IndexIn(e.body.ids, m) IN [data |-> p.msgs[i].data, attrs |-> p.msgs[i].attrs]]
         ELSE IF e.k = "ret" /\ e.code = "OK" /\ pend[e.c].e.op = "Pull" THEN ContentAfter(e.body.msgs)
         ELSE IF e.k = "srecv" THEN ContentAfter(e.msgs)
         ELSE content
    /\ gone' = IF e.k = "cancel" /\ e.c \in DOMAIN pend THEN gone \cup {Put(pend[e.c].e, "goneat", l)} ELSE gone
    /\ httpLast' = IF e.k = "http" /\ SubsNamed(e.sub) # {} THEN Put(httpLast, <<NewestNamed(e.sub), e.m>>, e.code)
                   ELSE IF e.k = "httpans" THEN HttpAnswered(e) ELSE httpLast
    /\ delT' = IF e.k = "s.del1" THEN Put(delT, e.si, e.t) ELSE delT
    /\ wire' = IF e.k = "t.accept" /\ "wire" \in DOMAIN e /\ Len(e.wire) = Len(e.ids)
               THEN [w \in (DOMAIN wire) \cup SeqSet(e.wire) |->
                        IF w \in DOMAIN wire THEN wire[w] ELSE e.ids[IndexIn(e.wire, w)]]
               ELSE wire
    /\ obsDel' =
         IF e.k = "ret" /\ e.code = "NOT_FOUND" /\ pend[e.c].e.op \in {"GetSub", "Pull", "Ack", "ModAck", "DeleteSub"}
         THEN LET nm == IF pend[e.c].e.op \in {"GetSub", "DeleteSub"} THEN pend[e.c].e.name ELSE pend[e.c].e.sub
                  seen == {si \in SubLookups(Win(e.c), nm) \ {None} : si \in DOMAIN S /\ S[si].st # "live" /\ si \notin DOMAIN obsDel}
              IN [si \in (DOMAIN obsDel) \cup seen |-> IF si \in DOMAIN obsDel THEN obsDel[si] ELSE l]
         ELSE obsDel
    /\ ptime' =
         IF e.k = "ret" /\ e.code = "OK" /\ pend[e.c].e.op = "Pull" THEN PtimeAfter(e.body.msgs)
         ELSE IF e.k = "srecv" THEN PtimeAfter(e.msgs) ELSE ptime

(***************************************************************************)
(* The trace behaviour.                                                    *)
(***************************************************************************)
TraceInit ==
    /\ CoreInit
    /\ l = 1 /\ skip = FALSE
    /\ hdr = [run |-> "none", meta |-> Empty, cap |-> 16, seed |-> 0]
    /\ pend = Empty /\ tok = Empty /\ content = Empty /\ ptime = Empty /\ gone = {}
    /\ httpLast = Empty /\ delT = Empty /\ obsDel = Empty /\ wire = Empty /\ lightNb = Empty /\ lightNl = Empty
    /\ stats = [ok |-> 0, bad |-> 0, drift |-> 0]

DoReset(e) ==
    /\ now' = 0
    /\ tmap' = Empty /\ smap' = Empty /\ T' = Empty /\ S' = Empty
    /\ torder' = <<>> /\ sorder' = <<>> /\ reg' = Empty /\ pubs' = Empty
    /\ skip' = FALSE
    /\ hdr' = e
    /\ pend' = Empty /\ tok' = Empty /\ content' = Empty /\ ptime' = Empty /\ gone' = {}
    /\ httpLast' = Empty /\ delT' = Empty /\ obsDel' = Empty /\ wire' = Empty /\ lightNb' = Empty /\ lightNl' = Empty

TraceNext ==
    /\ l <= Len(Rec)
    /\ l' = l + 1
    /\ LET e == IF Light THEN Rec[l] ELSE Norm(Rec[l]) IN
       IF e.k = "reset"
       THEN DoReset(e) /\ UNCHANGED stats
       ELSE IF skip
       THEN \* the rest of a rejected history is not judged - except for what needs no state to be
            \* judged: a call that never returned, a process in which nothing moved any more, a panic
            \* (a consumer that hangs on a subscription whose deletion had begun when the history was
            \* rejected was not released by that deletion: C12 as well)
            /\ (e.k \in {"hang", "stall"} =>
                   PrintT(<<"VIOL", ToJson([run |-> hdr.run, i |-> e.i, k |-> e.k, line |-> l,
                                            props |-> IF /\ e.k = "hang" /\ e.c \in DOMAIN pend
                                                         /\ pend[e.c].e.op \in {"Pull", "StreamOpen"}
                                                         /\ \E si \in DOMAIN S : S[si].name = pend[e.c].e.sub /\ S[si].st # "live"
                                                      THEN {"C07", "C12"} ELSE {"C07"}])>>))
            /\ (e.k \in {"panic", "abort"} =>
                   PrintT(<<"VIOL", ToJson([run |-> hdr.run, i |-> e.i, k |-> e.k, line |-> l, props |-> {"C17"}])>>))
            /\ UNCHANGED <<coreVars, skip, hdr, pend, tok, content, ptime, gone, httpLast, delT, obsDel, wire, lightNb, lightNl, stats>>
       ELSE LET gs == IF Light THEN LightGuards(e) ELSE Retag16(e, LateGuards(e) \cup EvGuards(e))
                bad == Fatal(gs)
            IN IF bad = {}
               THEN /\ IF Light THEN LightApply(e) ELSE (EvApply(e) /\ UNCHANGED <<lightNb, lightNl>>)
                    /\ skip' = skip
                    /\ hdr' = IF e.k = "mark" /\ e.name = "drained" THEN Put(hdr, "drained", TRUE)
                              ELSE IF e.k = "quiet" THEN Put(hdr, "lastq", l) ELSE hdr
                    /\ ("DRIFT" \in Failed(gs) =>
                           PrintT(<<"DRIFT", ToJson([run |-> hdr.run, i |-> e.i, k |-> e.k, line |-> l])>>))
                    /\ stats' = [stats EXCEPT !.drift = @ + (IF "DRIFT" \in Failed(gs) THEN 1 ELSE 0),
                                              !.ok = @ + (IF e.k = "end" THEN 1 ELSE 0)]
               ELSE /\ PrintT(<<"VIOL", ToJson([run |-> hdr.run, i |-> e.i, k |-> e.k, line |-> l, props |-> bad])>>)
                    /\ skip' = TRUE
                    /\ stats' = [stats EXCEPT !.bad = @ + 1]
                    /\ UNCHANGED <<coreVars, hdr, pend, tok, content, ptime, gone, httpLast, delT, obsDel, wire, lightNb, lightNl>>

TraceSpec == TraceInit /\ [][TraceNext]_tvars

\* The whole file was consumed: one state per event plus the initial one.
TraceAccepted ==
    LET d == TLCGet("stats").diameter IN
    IF d = Len(Rec) + 1 THEN TRUE
    ELSE /\ PrintT(<<"STUCK", ToJson([line |-> d, event |-> IF d <= Len(Rec) THEN Rec[d] ELSE [k |-> "eof"]])>>)
         /\ FALSE

\* State invariants evaluated in every state of every validated history.
Inv_C01 == skip \/ (C01_Conserve /\ C01_NoSpurious)
Inv_C02 == skip \/ C02_Final
Inv_C03 == skip \/ C03_Exclusive
Inv_C09 == skip \/ C09_Unique
Inv_C10 == skip \/ C10_Maps
Inv_C11 == skip \/ C11_Deleted

\* Printed once, from the last state.
Summary == (l = Len(Rec) + 1) => PrintT(<<"SUMMARY", ToJson(stats)>>)
=============================================================================
