SPECIFICATION TraceSpec
CHECK_DEADLOCK FALSE
CONSTANTS
  SecMs = 1000
  MinAckSec = 10
  MaxModSec = 600
  Slack = 999
  Gran = 1
  MinWait = 1000
  Prompt = 1000
  WaitLimit = 300000
INVARIANT Inv_C01 Inv_C02 Inv_C03 Inv_C09 Inv_C10 Inv_C11 Summary
POSTCONDITION TraceAccepted
