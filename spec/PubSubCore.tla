------------------------------ MODULE PubSubCore ------------------------------
(***************************************************************************)
(* The contract of the deltio Pub/Sub emulator at the grain of ACTOR TURNS *)
(* and MANAGER CRITICAL SECTIONS.                                          *)
(*                                                                         *)
(* One action per critical section of the implementation (DESIGN.md 1.3):  *)
(* every action takes all of its arguments as parameters, so that the same *)
(* definitions are used                                                    *)
(*   - by the model-checking modules (MC*.tla), which quantify the         *)
(*     parameters over small constant sets, and                            *)
(*   - by the trace specification (TraceCore.tla), which binds them to the *)
(*     values recorded from the real server.                               *)
(*                                                                         *)
(* Every enabling condition is a conjunction of NAMED guards G(id, cond):  *)
(* the name is the property (C01..C19) that the condition expresses, or    *)
(* "BIND" for a pure conformance binding.  The trace specification uses    *)
(* the names to attribute a rejected event to a property.                  *)
(***************************************************************************)
EXTENDS Integers, Sequences, FiniteSets, TLC, SequencesExt, FiniteSetsExt, Functions

CONSTANTS
    SecMs,      \* length of a second in clock units (1000 for traces)
    MinAckSec,  \* smallest effective ack deadline, seconds (10)
    MaxModSec,  \* cap for ModifyAckDeadline, seconds (600)
    Slack,      \* how late a deadline may fire, clock units (999 for traces)
    Gran        \* granularity of recorded instants: both the hand-out instant and the deadline
                \* are truncated to whole clock units when recorded, so "not earlier" is decided
                \* up to one unit (1 for traces, 0 for model checking)

VARIABLES
    now,     \* the clock
    tmap,    \* topic name        -> topic incarnation          (TopicManager map)
    smap,    \* subscription name -> subscription incarnation   (SubscriptionManager map)
    T,       \* topic incarnation -> [name, att, last, deleted]
    S,       \* subscription incarnation -> record, see NewSub
    torder,  \* topic incarnations in creation order        (listing order)
    sorder,  \* subscription incarnations in creation order (listing order)
    reg,     \* push registry: subscription name -> endpoint
    pubs     \* ghost: message -> [ti, seq]  (every message a topic ever accepted)

coreVars == <<now, tmap, smap, T, S, torder, sorder, reg, pubs>>

None == -1
Empty == <<>>          \* the function with empty domain

(***************************************************************************)
(* Guards.  G(id, c) is just c; the trace specification re-evaluates the   *)
(* guards of a rejected event one by one to find the property concerned.   *)
(***************************************************************************)
G(id, c) == <<id, c>>

Max2(a, b) == IF a >= b THEN a ELSE b
Min2(a, b) == IF a <= b THEN a ELSE b

Without(f, k) == [x \in (DOMAIN f) \ {k} |-> f[x]]
WithoutAll(f, ks) == [x \in (DOMAIN f) \ ks |-> f[x]]
Put(f, k, v) == [x \in (DOMAIN f) \cup {k} |-> IF x = k THEN v ELSE f[x]]
PutIfAbsent(f, k, v) == IF k \in DOMAIN f THEN f ELSE Put(f, k, v)
Rng(f) == {f[x] : x \in DOMAIN f}
SeqSet(s) == {s[i] : i \in 1..Len(s)}
NoDup(s) == \A i, j \in 1..Len(s) : i # j => s[i] # s[j]
IndexIn(s, e) == CHOOSE i \in 1..Len(s) : s[i] = e

\* Remove the elements of set X from sequence s, keeping the order of the rest.
SeqMinus(s, X) == SelectSeq(s, LAMBDA e : e \notin X)

\* t holds exactly the elements of s plus the elements of addedSet (nothing lost, nothing twice).
SameElementsPlus(t, s, addedSet) ==
    /\ Len(t) = Len(s) + Cardinality(addedSet)
    /\ SeqSet(t) = SeqSet(s) \cup addedSet

\* The elements of `keep` appear in t in the same relative order as in s.
SameOrderOf(t, s, keep) ==
    SelectSeq(t, LAMBDA e : e \in keep) = SelectSeq(s, LAMBDA e : e \in keep)

\* Lexicographic order on message ids <<hi, lo>>.
MsgLess(a, b) == a[1] < b[1] \/ (a[1] = b[1] /\ a[2] < b[2])

(***************************************************************************)
(* Effective ack deadline of a subscription created with `secs`.           *)
(***************************************************************************)
EffDeadline(secs) == Max2(secs, MinAckSec) * SecMs

\* Deadline window of a ModifyAckDeadline with n > 0 seconds issued at time t.
ModLo(t, n) == t + Min2(n, MaxModSec) * SecMs
ModHi(t, n) == ModLo(t, n) + Slack

(***************************************************************************)
(* Records.                                                                *)
(***************************************************************************)
NewTopic(name) == [name |-> name, att |-> Empty, last |-> <<0, 0>>, deleted |-> FALSE]

NewSub(name, ti, d, push) ==
    [ name   |-> name,
      topic  |-> ti,        \* incarnation of the topic it was created on
      D      |-> d,         \* effective ack deadline, clock units
      push   |-> push,      \* push endpoint or ""
      st     |-> "live",    \* "live" | "deleting" | "deleted"
      inbox  |-> <<>>,      \* batches accepted by the topic, not yet processed by the actor (FIFO)
      queue  |-> <<>>,      \* backlog: messages waiting to be handed out
      lease  |-> Empty,     \* ack id -> [m, dl, lo, hi]: outstanding deliveries
      used   |-> {},        \* every ack id ever issued
      posted |-> {},        \* ghost: every message ever appended by a post
      acked  |-> {},        \* ghost: messages whose outstanding delivery was acknowledged
      seen   |-> {},        \* ghost: messages handed out at least once
      exited |-> FALSE ]

Live(si) == si \in DOMAIN S /\ S[si].st = "live"
LeasedMsgs(s) == {s.lease[a].m : a \in DOMAIN s.lease}
TopicBound(ti) == \E n \in DOMAIN tmap : tmap[n] = ti

(***************************************************************************)
(* Pure per-subscription transitions, shared by the turn actions below and *)
(* by the atomic API operations of MCCore.                                 *)
(***************************************************************************)
SubAfterPost(s, ids) ==
    IF s.st = "live"
    THEN [s EXCEPT !.queue = @ \o ids, !.posted = @ \cup SeqSet(ids)]
    ELSE s

\* out: sequence of [ack, m, dl]; queueAfter: the backlog after the pull.
SubAfterPull(s, out, queueAfter, t) ==
    LET newAcks == {out[i].ack : i \in 1..Len(out)}
        entry(a) == LET i == CHOOSE j \in 1..Len(out) : out[j].ack = a
                    IN [m |-> out[i].m, dl |-> out[i].dl, lo |-> t + s.D, hi |-> t + s.D + Slack, md |-> FALSE]
    IN [s EXCEPT !.queue = queueAfter,
                 !.lease = [a \in (DOMAIN s.lease) \cup newAcks |->
                              IF a \in newAcks THEN entry(a) ELSE s.lease[a]],
                 !.used = @ \cup newAcks,
                 !.seen = @ \cup {out[i].m : i \in 1..Len(out)}]

SubAfterAck(s, acks) ==
    LET hit == acks \cap DOMAIN s.lease
    IN [s EXCEPT !.lease = WithoutAll(@, hit),
                 !.acked = @ \cup {s.lease[a].m : a \in hit}]

\* One modification [ack, dl, lo, hi]; dl = None means nack.  Returns the record after
\* it, with a nacked message appended to the END of the queue (the position is not part
\* of the contract; callers that bind to a recorded backlog re-order it).
SubAfterOneMod(s, mod) ==
    IF mod.ack \notin DOMAIN s.lease THEN s
    ELSE IF mod.dl = None
         THEN [s EXCEPT !.lease = Without(@, mod.ack), !.queue = Append(@, s.lease[mod.ack].m)]
         ELSE [s EXCEPT !.lease[mod.ack] = [m |-> @.m, dl |-> mod.dl, lo |-> mod.lo, hi |-> mod.hi, md |-> TRUE]]

RECURSIVE SubAfterMods(_, _)
SubAfterMods(s, mods) ==
    IF mods = <<>> THEN s ELSE SubAfterMods(SubAfterOneMod(s, Head(mods)), Tail(mods))

\* acks: sequence of expired ack ids, in the order they are re-queued.
SubAfterExpire(s, acks) ==
    [s EXCEPT !.lease = WithoutAll(@, SeqSet(acks)),
              !.queue = @ \o [i \in 1..Len(acks) |-> s.lease[acks[i]].m]]

(***************************************************************************)
(* Guards.  Every action X(args) is split into                             *)
(*    X_G(args)  a SET of pairs <<property id, condition>>                 *)
(*    X_A(args)  the state update                                          *)
(* and X(args) == AllHold(X_G(args)) /\ X_A(args).  Conditions are written *)
(* so that they can all be evaluated even when an earlier one is false.    *)
(***************************************************************************)
AllHold(gs) == \A g \in gs : g[2]
Failed(gs) == {g[1] : g \in {x \in gs : ~x[2]}}

\* Guards of a pull by a LIVE subscription s at time t.
\* abandoned: the requester of this pull may have gone away before the turn (then an empty
\* answer to nobody is not a response the contract speaks about).
PullGuards(s, max, out, queueAfter, t, abandoned, early) ==
    LET msgs  == [i \in 1..Len(out) |-> out[i].m]
        acks  == [i \in 1..Len(out) |-> out[i].ack]
        fresh == {m \in SeqSet(s.queue) : m \notin s.seen}
    IN { G("C15", max >= 1 => Len(out) <= max),
         G("C06,C15", (max >= 1 /\ s.queue # <<>> /\ ~abandoned) => out # <<>>),
         G("C03", NoDup(msgs)),
         G("C03", SeqSet(msgs) \subseteq SeqSet(s.queue)),
         G("C03", LeasedMsgs(s) \cap SeqSet(msgs) = {}),
         \* the rest of the backlog stays: nothing lost, nothing twice (where a re-queued
         \* message sits is not part of the contract; the order of never-delivered ones is)
         G("C01", SameElementsPlus(queueAfter, SeqMinus(s.queue, SeqSet(msgs)), {})),
         G("C08", SameOrderOf(queueAfter, s.queue, fresh \ SeqSet(msgs))),
         G("C03", NoDup(acks) /\ SeqSet(acks) \cap s.used = {}),
         \* first deliveries happen in queue order, none skipped
         G("C08", LET fo == SelectSeq(msgs, LAMBDA m : m \in fresh)
                      fq == SelectSeq(s.queue, LAMBDA m : m \in fresh)
                  IN Len(fo) <= Len(fq) /\ fo = SubSeq(fq, 1, Len(fo))),
         G("C04", \A i \in 1..Len(out) : out[i].dl >= t + s.D - early /\ out[i].dl <= t + s.D + Slack) }

\* Guards of one expiry batch of subscription s at time t.
ExpireGuards(s, acks, t, judgeLate, early) ==
    { G("BIND", acks # <<>> /\ NoDup(acks)),
      G("C02", SeqSet(acks) \subseteq DOMAIN s.lease),     \* never an acknowledged / nacked delivery
      G("C04", \A i \in 1..Len(acks) : (acks[i] \in DOMAIN s.lease /\ ~s.lease[acks[i]].md) => t >= s.lease[acks[i]].lo - early),
      \* (before the deadline a ModifyAckDeadline set: the modification did not replace the deadline, C05)
      G("C04,C05", \A i \in 1..Len(acks) : (acks[i] \in DOMAIN s.lease /\ s.lease[acks[i]].md) => t >= s.lease[acks[i]].lo - early),
      \* not later than the slack after the deadline (C04) - also after a ModifyAckDeadline moved it
      \* ("the C04 redelivery rule then applies to the new deadline": C05)
      G("C04", judgeLate => \A i \in 1..Len(acks) : (acks[i] \in DOMAIN s.lease /\ ~s.lease[acks[i]].md) => t <= s.lease[acks[i]].hi),
      G("C04,C05", judgeLate => \A i \in 1..Len(acks) : (acks[i] \in DOMAIN s.lease /\ s.lease[acks[i]].md) => t <= s.lease[acks[i]].hi) }

ModGuards(s, mods, early) ==
    { \* a deadline set EARLIER than the request asked for ends the consumer's lease while the consumer
      \* still relies on it: the message is handed out again during an outstanding delivery (C03)
      G("C03,C05", \A i \in 1..Len(mods) : mods[i].dl # None => mods[i].dl >= mods[i].lo - early),
      G("C05", \A i \in 1..Len(mods) : mods[i].dl # None => mods[i].dl <= mods[i].hi) }

(***************************************************************************)
(* Initial state.                                                          *)
(***************************************************************************)
CoreInit ==
    /\ now = 0
    /\ tmap = Empty /\ smap = Empty
    /\ T = Empty /\ S = Empty
    /\ torder = <<>> /\ sorder = <<>>
    /\ reg = Empty
    /\ pubs = Empty

(***************************************************************************)
(* Manager critical sections.                                              *)
(***************************************************************************)
\* (a name that NEVER existed and is treated as bound, or resolved to a resource, is taken for
\* another name: "names that differ in project or ID denote different resources", C18)
TopicNameEver(name) == \E x \in DOMAIN T : T[x].name = name
SubNameEver(name) == \E x \in DOMAIN S : S[x].name = name
MgrCreateTopic_G(name, ti, ok) ==
    { G(IF TopicNameEver(name) THEN "C10" ELSE "C10,C18", ok <=> name \notin DOMAIN tmap),
      G("C09", ok => ti \notin DOMAIN T) }            \* incarnations are never reused
MgrCreateTopic_A(name, ti, ok) ==
    /\ IF ok
       THEN /\ tmap' = Put(tmap, name, ti)
            /\ T' = Put(T, ti, NewTopic(name))
            /\ torder' = Append(torder, ti)
       ELSE UNCHANGED <<tmap, T, torder>>
    /\ UNCHANGED <<smap, S, sorder, reg, pubs>>
MgrCreateTopic(name, ti, ok) == AllHold(MgrCreateTopic_G(name, ti, ok)) /\ MgrCreateTopic_A(name, ti, ok) /\ now' = now

\* Removal of the map entry by the topic actor's delete.
MgrRemoveTopic_G(name, ti) ==
    { G("C10", ti = (IF name \in DOMAIN tmap THEN tmap[name] ELSE None)) }
MgrRemoveTopic_A(name, ti) ==
    /\ tmap' = IF name \in DOMAIN tmap THEN Without(tmap, name) ELSE tmap
    /\ UNCHANGED <<smap, T, S, torder, sorder, reg, pubs>>
MgrRemoveTopic(name, ti) == AllHold(MgrRemoveTopic_G(name, ti)) /\ MgrRemoveTopic_A(name, ti) /\ now' = now

\* A lookup under the read lock.
MgrGetTopic_G(name, ti) ==
    { G(IF TopicNameEver(name) THEN "C10" ELSE "C10,C18", ti = (IF name \in DOMAIN tmap THEN tmap[name] ELSE None)) }
MgrGetTopic(name, ti) == AllHold(MgrGetTopic_G(name, ti)) /\ UNCHANGED coreVars

MgrInsertSub_G(name, si, ti, d, push, ok) ==
    { \* refused exactly when the name is bound ...
      G(IF SubNameEver(name) THEN "C10" ELSE "C10,C18", ~ok => name \in DOMAIN smap),
      \* ... a create that replaces a bound name also orphans the old incarnation, which stays in
      \* its topic's list (C11)
      G("C10,C11", ok => name \notin DOMAIN smap),
      \* (the internal id of a subscription is what listings are ordered by: creation order needs
      \* every incarnation to get an id of its own)
      G("C13", ok => si \notin DOMAIN S),
      G("BIND", ti \in DOMAIN T) }
MgrInsertSub_A(name, si, ti, d, push, ok) ==
    /\ IF ok
       THEN /\ smap' = Put(smap, name, si)
            /\ S' = Put(S, si, NewSub(name, ti, d, push))
            /\ sorder' = Append(sorder, si)
       ELSE UNCHANGED <<smap, S, sorder>>
    /\ UNCHANGED <<tmap, T, torder, reg, pubs>>
MgrInsertSub(name, si, ti, d, push, ok) ==
    AllHold(MgrInsertSub_G(name, si, ti, d, push, ok)) /\ MgrInsertSub_A(name, si, ti, d, push, ok) /\ now' = now

MgrRemoveSub_G(name, si) ==
    { G("C10", si = (IF name \in DOMAIN smap THEN smap[name] ELSE None)) }
MgrRemoveSub_A(name, si) ==
    /\ smap' = IF name \in DOMAIN smap THEN Without(smap, name) ELSE smap
    /\ UNCHANGED <<tmap, T, S, torder, sorder, reg, pubs>>
MgrRemoveSub(name, si) == AllHold(MgrRemoveSub_G(name, si)) /\ MgrRemoveSub_A(name, si) /\ now' = now

MgrGetSub_G(name, si) ==
    { G(IF SubNameEver(name) THEN "C10" ELSE "C10,C18", si = (IF name \in DOMAIN smap THEN smap[name] ELSE None)) }
MgrGetSub(name, si) == AllHold(MgrGetSub_G(name, si)) /\ UNCHANGED coreVars

\* PushSubscriptionsRegistry::set: insert-if-absent, or removal.
RegAfterSet(name, set, endpoint) ==
    IF set THEN PutIfAbsent(reg, name, endpoint)
    ELSE IF name \in DOMAIN reg THEN Without(reg, name) ELSE reg
RegSet_A(name, set, endpoint) ==
    /\ reg' = RegAfterSet(name, set, endpoint)
    /\ UNCHANGED <<tmap, smap, T, S, torder, sorder, pubs>>

(***************************************************************************)
(* Listing: filter, creation order, skip, take.                            *)
(***************************************************************************)
PageOf(all, skip, size) == SubSeq(all, Min2(skip, Len(all)) + 1, Min2(skip + size, Len(all)))
NextOf(page, skip) == IF page = <<>> THEN None ELSE skip + Len(page)

TopicsOf(projOf, project) ==
    SelectSeq(torder, LAMBDA ti : T[ti].name \in DOMAIN tmap /\ tmap[T[ti].name] = ti
                                   /\ T[ti].name \in DOMAIN projOf /\ projOf[T[ti].name] = project)
SubsOf(projOf, project) ==
    SelectSeq(sorder, LAMBDA si : S[si].name \in DOMAIN smap /\ smap[S[si].name] = si
                                   /\ S[si].name \in DOMAIN projOf /\ projOf[S[si].name] = project)
AttachedOf(ti) == SelectSeq(sorder, LAMBDA si : si \in Rng(T[ti].att))

ListGuards(all, skip, size, out, next) ==
    { G("C13", out = PageOf(all, skip, size)),
      G("C13", next = NextOf(out, skip)) }

MgrListTopics_G(projOf, project, skip, size, out, next) ==
    ListGuards(TopicsOf(projOf, project), skip, size, out, next)
MgrListSubs_G(projOf, project, skip, size, out, next) ==
    ListGuards(SubsOf(projOf, project), skip, size, out, next)
TopicList_G(ti, skip, size, out, next) ==
    IF ti \in DOMAIN T THEN ListGuards(AttachedOf(ti), skip, size, out, next)
    ELSE { G("BIND", FALSE) }

(***************************************************************************)
(* Topic actor turns.                                                      *)
(***************************************************************************)
\* attach_subscription: vacant-entry insert keyed by name.
TopicAttach_G(ti, name, si) == { G("BIND", ti \in DOMAIN T /\ si \in DOMAIN S) }
TopicAttach_A(ti, name, si) ==
    /\ T' = [T EXCEPT ![ti].att = PutIfAbsent(@, name, si)]
    /\ UNCHANGED <<tmap, smap, S, torder, sorder, reg, pubs>>
TopicAttach(ti, name, si) == AllHold(TopicAttach_G(ti, name, si)) /\ TopicAttach_A(ti, name, si) /\ now' = now

\* remove_subscription: removal by name.
TopicRemove_G(ti, name) == { G("BIND", ti \in DOMAIN T) }
TopicRemove_A(ti, name) ==
    /\ T' = [T EXCEPT ![ti].att = IF name \in DOMAIN @ THEN Without(@, name) ELSE @]
    /\ UNCHANGED <<tmap, smap, S, torder, sorder, reg, pubs>>
TopicRemove(ti, name) == AllHold(TopicRemove_G(ti, name)) /\ TopicRemove_A(ti, name) /\ now' = now

\* delete: flag, subscription set cleared (the map entry goes in MgrRemoveTopic).
TopicDelete_G(ti, first) ==
    { G("BIND", ti \in DOMAIN T),
      G("C11", ti \in DOMAIN T => (first <=> ~T[ti].deleted)) }
TopicDelete_A(ti, first) ==
    /\ T' = IF first THEN [T EXCEPT ![ti].deleted = TRUE, ![ti].att = Empty] ELSE T
    /\ UNCHANGED <<tmap, smap, S, torder, sorder, reg, pubs>>
TopicDelete(ti, first) == AllHold(TopicDelete_G(ti, first)) /\ TopicDelete_A(ti, first) /\ now' = now

\* publish_messages up to the spawn loop: ids assigned, fan-out set fixed.
\* ids: sequence of message ids; fan: set of subscription incarnations posted to.
TopicAccept_G(ti, ids, fan) ==
    { G("BIND", ti \in DOMAIN T),
      G("C09", \A i \in 1..Len(ids) : ids[i] \notin DOMAIN pubs),      \* globally fresh
      G("C09", NoDup(ids)),
      G("C08", ti \in DOMAIN T =>
                 \A i \in 1..Len(ids) : MsgLess(IF i = 1 THEN T[ti].last ELSE ids[i-1], ids[i])),
      G("C01", ti \in DOMAIN T => fan = Rng(T[ti].att)) }               \* exactly the attached ones
TopicAccept_A(ti, ids, fan) ==
    /\ T' = [T EXCEPT ![ti].last = IF ids = <<>> THEN @ ELSE ids[Len(ids)]]
    /\ S' = [si \in DOMAIN S |-> IF si \in fan /\ ids # <<>>
                                 THEN [S[si] EXCEPT !.inbox = Append(@, ids)] ELSE S[si]]
    /\ pubs' = [m \in (DOMAIN pubs) \cup SeqSet(ids) |->
                  IF m \in DOMAIN pubs THEN pubs[m]
                  ELSE [ti |-> ti, seq |-> Cardinality(DOMAIN pubs) + IndexIn(ids, m)]]
    /\ UNCHANGED <<tmap, smap, torder, sorder, reg>>
TopicAccept(ti, ids, fan) == AllHold(TopicAccept_G(ti, ids, fan)) /\ TopicAccept_A(ti, ids, fan) /\ now' = now

(***************************************************************************)
(* Subscription actor turns.                                               *)
(***************************************************************************)
\* post_messages: the oldest batch in flight for this subscription.
SubPost_G(si, ids) ==
    IF si \notin DOMAIN S THEN { G("BIND", FALSE) } ELSE
    { G("C01", ids # <<>> => (SeqSet(ids) \subseteq DOMAIN pubs
                               /\ \A i \in 1..Len(ids) : ids[i] \in DOMAIN pubs => pubs[ids[i]].ti = S[si].topic)),
      G("C01", ids # <<>> => S[si].inbox # <<>>),        \* a post nobody accepted is spurious
      \* posted in the order accepted: a post that is not the oldest accepted batch either overtook
      \* it (C08) or the older batch was dropped on its way (C01: accepted, never posted)
      G("C01,C08", (ids # <<>> /\ S[si].inbox # <<>>) => Head(S[si].inbox) = ids) }
SubPost_A(si, ids) ==
    /\ S' = [S EXCEPT ![si] = IF ids = <<>> THEN @
                              ELSE SubAfterPost([@ EXCEPT !.inbox = Tail(@)], ids)]
    /\ UNCHANGED <<tmap, smap, T, torder, sorder, reg, pubs>>
SubPost(si, ids) == AllHold(SubPost_G(si, ids)) /\ SubPost_A(si, ids) /\ now' = now

SubPull_G(si, max, out, queueAfter, t, abandoned, early) ==
    IF si \notin DOMAIN S THEN { G("BIND", FALSE) } ELSE
    IF S[si].st = "live" THEN PullGuards(S[si], max, out, queueAfter, t, abandoned, early)
    ELSE { G("C11", out = <<>>) }           \* a deleted subscription receives nothing further
SubPull_A(si, max, out, queueAfter, t) ==
    /\ S' = IF S[si].st = "live" THEN [S EXCEPT ![si] = SubAfterPull(@, out, queueAfter, t)] ELSE S
    /\ UNCHANGED <<tmap, smap, T, torder, sorder, reg, pubs>>
SubPull(si, max, out, queueAfter) ==
    AllHold(SubPull_G(si, max, out, queueAfter, now, FALSE, Gran)) /\ SubPull_A(si, max, out, queueAfter, now) /\ now' = now

SubAck_G(si, acks) == { G("BIND", si \in DOMAIN S) }
SubAck_A(si, acks) ==
    /\ S' = [S EXCEPT ![si] = IF @.st = "live" THEN SubAfterAck(@, acks) ELSE @]
    /\ UNCHANGED <<tmap, smap, T, torder, sorder, reg, pubs>>
SubAck(si, acks) == AllHold(SubAck_G(si, acks)) /\ SubAck_A(si, acks) /\ now' = now

\* mods: sequence of [ack, dl, lo, hi]; queueAfter: the backlog after the turn.
NackedBy(s, mods) == SeqSet(SubAfterMods(s, mods).queue) \ SeqSet(s.queue)
SubModify_G(si, mods, queueAfter, early) ==
    IF si \notin DOMAIN S THEN { G("BIND", FALSE) } ELSE
    IF S[si].st # "live" THEN {} ELSE
    ModGuards(S[si], mods, early) \cup
    { \* a nack returns the message to the queue - once (a message queued twice is delivered twice:
      \* acknowledging one delivery leaves the other to come after the acknowledgement, C02; and both
      \* copies can be out at once, C03)
      G(IF NoDup(queueAfter) THEN "C05" ELSE "C02,C03,C05", SameElementsPlus(queueAfter, S[si].queue, NackedBy(S[si], mods))),
      G("C08", SameOrderOf(queueAfter, S[si].queue, SeqSet(S[si].queue) \ S[si].seen)) }
SubModify_A(si, mods, queueAfter) ==
    /\ S' = IF S[si].st = "live"
            THEN [S EXCEPT ![si] = [SubAfterMods(@, mods) EXCEPT !.queue = queueAfter]]
            ELSE S
    /\ UNCHANGED <<tmap, smap, T, torder, sorder, reg, pubs>>
SubModify(si, mods, queueAfter) ==
    AllHold(SubModify_G(si, mods, queueAfter, Gran)) /\ SubModify_A(si, mods, queueAfter) /\ now' = now

ExpiredBy(s, acks) == {s.lease[a].m : a \in SeqSet(acks) \cap DOMAIN s.lease}
SubExpire_G(si, acks, queueAfter, judgeLate, t, early) ==
    IF si \notin DOMAIN S \/ S[si].st # "live" THEN { G("BIND", FALSE) } ELSE
    ExpireGuards(S[si], acks, t, judgeLate, early) \cup
    { \* the queue after the turn = the queue before + the expired messages: "becomes available for
      \* redelivery" (C04) and nothing is lost (C01)
      G("C01,C04", SameElementsPlus(queueAfter, S[si].queue, ExpiredBy(S[si], acks))),
      G("C08", SameOrderOf(queueAfter, S[si].queue, SeqSet(S[si].queue) \ S[si].seen)) }
SubExpire_A(si, acks, queueAfter) ==
    /\ S' = [S EXCEPT ![si] = [SubAfterExpire(@, acks) EXCEPT !.queue = queueAfter]]
    /\ UNCHANGED <<tmap, smap, T, torder, sorder, reg, pubs>>
SubExpire(si, acks, queueAfter, judgeLate) ==
    AllHold(SubExpire_G(si, acks, queueAfter, judgeLate, now, Gran)) /\ SubExpire_A(si, acks, queueAfter) /\ now' = now

SubDeleteBegin_A(si) ==
    /\ S' = [S EXCEPT ![si].st = IF @ = "live" THEN "deleting" ELSE @]
    /\ UNCHANGED <<tmap, smap, T, torder, sorder, reg, pubs>>

SubDeleteEnd_A(si) ==
    /\ S' = [S EXCEPT ![si].st = "deleted", ![si].queue = <<>>, ![si].lease = Empty]
    /\ UNCHANGED <<tmap, smap, T, torder, sorder, reg, pubs>>

SubExit_A(si) ==
    /\ S' = [S EXCEPT ![si].exited = TRUE]
    /\ UNCHANGED <<tmap, smap, T, torder, sorder, reg, pubs>>

(***************************************************************************)
(* Time.  The clock may not pass the latest admissible firing instant of   *)
(* an outstanding delivery of a live subscription (urgency): that is what  *)
(* makes "no later than" a safety property.                                *)
(***************************************************************************)
AllHis == UNION {{S[si].lease[a].hi : a \in DOMAIN S[si].lease} : si \in {x \in DOMAIN S : S[x].st = "live"}}
AllDls == UNION {{S[si].lease[a].dl : a \in DOMAIN S[si].lease} : si \in {x \in DOMAIN S : S[x].st = "live"}}

Tick(t) ==
    /\ t >= now
    /\ now' = t
    /\ UNCHANGED <<tmap, smap, T, S, torder, sorder, reg, pubs>>

(***************************************************************************)
(* Invariants (state predicates over the core variables).                  *)
(***************************************************************************)
\* C01: a posted message of a live subscription is in exactly one place.
C01_Conserve ==
    \A si \in DOMAIN S : S[si].st = "live" =>
        LET s == S[si] IN
        \A m \in s.posted : m \in SeqSet(s.queue) \/ m \in LeasedMsgs(s) \/ m \in s.acked

\* C01: nothing from another topic, nothing that was never posted.
C01_NoSpurious ==
    \A si \in DOMAIN S :
        LET s == S[si] IN
        /\ SeqSet(s.queue) \cup LeasedMsgs(s) \subseteq s.posted
        /\ \A m \in s.posted : m \in DOMAIN pubs /\ pubs[m].ti = s.topic

\* C02: an acknowledged message is never again queued or leased on that subscription.
C02_Final ==
    \A si \in DOMAIN S :
        S[si].acked \cap (SeqSet(S[si].queue) \cup LeasedMsgs(S[si])) = {}

\* C03: a message is leased at most once and never queued while leased; queue duplicate-free.
C03_Exclusive ==
    \A si \in DOMAIN S :
        LET s == S[si] IN
        /\ \A a, b \in DOMAIN s.lease : a # b => s.lease[a].m # s.lease[b].m
        /\ LeasedMsgs(s) \cap SeqSet(s.queue) = {}
        /\ NoDup(s.queue)
        /\ DOMAIN s.lease \subseteq s.used

\* C04: no outstanding delivery of a live subscription is overdue.
C04_NotLate ==
    \A si \in DOMAIN S : S[si].st = "live" =>
        \A a \in DOMAIN S[si].lease : now <= S[si].lease[a].hi

\* C09: message ids are unique per accept (pubs is a function; its seq is injective).
C09_Unique ==
    \A m1, m2 \in DOMAIN pubs : pubs[m1].seq = pubs[m2].seq => m1 = m2

\* C10 / C11: the maps and the incarnation tables agree.
C10_Maps ==
    /\ \A n \in DOMAIN tmap : tmap[n] \in DOMAIN T /\ T[tmap[n]].name = n
    /\ \A n \in DOMAIN smap : smap[n] \in DOMAIN S /\ S[smap[n]].name = n
    /\ NoDup(torder) /\ NoDup(sorder)
    /\ SeqSet(torder) = DOMAIN T /\ SeqSet(sorder) = DOMAIN S

\* C11: a deleted subscription holds nothing; a deleted topic has no attachments that
\* were made before its deletion (later attaches of racing creates are tolerated).
C11_Deleted ==
    \A si \in DOMAIN S : S[si].st = "deleted" => S[si].queue = <<>> /\ S[si].lease = Empty

CoreInvariants ==
    /\ C01_Conserve /\ C01_NoSpurious /\ C02_Final /\ C03_Exclusive
    /\ C09_Unique /\ C10_Maps /\ C11_Deleted

(***************************************************************************)
(* Quiescent-state predicates (evaluated where the trace says the system   *)
(* is at rest, and in every state of the sequential API model).            *)
(***************************************************************************)
\* C11: the topic-side list of a live topic is exactly the live subscriptions created on it.
C11_AttachedExact ==
    \A n \in DOMAIN tmap :
        LET ti == tmap[n] IN
        Rng(T[ti].att) = {si \in DOMAIN S : S[si].topic = ti /\ S[si].st = "live"
                                             /\ S[si].name \in DOMAIN smap /\ smap[S[si].name] = si}

\* C14 / C16: the push registry holds exactly the live push subscriptions.
C14_RegistryExact ==
    /\ \A n \in DOMAIN smap : (S[smap[n]].push # "" /\ S[smap[n]].st = "live")
                                 => (n \in DOMAIN reg /\ reg[n] = S[smap[n]].push)
    /\ \A n \in DOMAIN reg : n \in DOMAIN smap /\ S[smap[n]].push = reg[n]

\* C16: every subscription that exists is attached to its topic (if that topic is alive).
C16_Attached ==
    \A n \in DOMAIN smap :
        LET si == smap[n] IN
        (S[si].st = "live" /\ TopicBound(S[si].topic)) => si \in Rng(T[S[si].topic].att)

=============================================================================
