---------------------------- MODULE TraceNotify ----------------------------
(***************************************************************************)
(* Compares recorded executions of a real tokio::sync::Notify (dvh notify) *)
(* with NotifyModel, step by step.                                         *)
(***************************************************************************)
EXTENDS NotifyModel, IOUtils

Rec == ndJsonDeserialize(IOEnv.TRACE)

VARIABLES l, bad, runs
tvars == <<vars, l, bad, runs>>

TraceInit == Init /\ l = 1 /\ bad = 0 /\ runs = 0

ModelStep(e) ==
    CASE e.op = "create" -> Create(e.f)
      [] e.op = "poll" -> Poll(e.f)
      [] e.op = "drop" -> Drop(e.f)
      [] e.op = "one" -> NotifyOne
      [] e.op = "all" -> NotifyWaiters

TraceNext ==
    /\ l <= Len(Rec)
    /\ l' = l + 1
    /\ LET e == Rec[l] IN
       IF e.k = "reset"
       THEN /\ permit' = FALSE /\ waiters' = <<>> /\ gen' = 0
            /\ st' = [f \in Futs |-> "none"] /\ fgen' = [f \in Futs |-> 0] /\ hist' = <<>>
            /\ runs' = runs + 1 /\ UNCHANGED bad
       ELSE IF e.k # "nt.step" THEN UNCHANGED <<vars, bad, runs>>
       ELSE /\ ModelStep(e)
            /\ UNCHANGED runs
            /\ IF e.op = "poll" /\ hist'[Len(hist')].r # e.r
               THEN /\ PrintT(<<"VIOL", ToJson([run |-> "notify", i |-> e.i, k |-> e.k, line |-> l, props |-> {"MODEL"},
                                               model |-> hist'[Len(hist')].r, real |-> e.r])>>)
                    /\ bad' = bad + 1
               ELSE UNCHANGED bad

TraceSpec == TraceInit /\ [][TraceNext]_tvars

TraceAccepted ==
    LET d == TLCGet("stats").diameter IN
    IF d = Len(Rec) + 1 THEN TRUE ELSE PrintT(<<"STUCK", ToJson([line |-> d])>>) /\ FALSE

Summary == (l = Len(Rec) + 1) => PrintT(<<"SUMMARY", ToJson([ok |-> runs - bad, bad |-> bad, drift |-> 0])>>)
=============================================================================
