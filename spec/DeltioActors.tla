---------------------------- MODULE DeltioActors ----------------------------
(***************************************************************************)
(* The implementation-shaped layer: bounded actor mailboxes with FIFO      *)
(* permit queues (tokio mpsc), one process per in-flight request with a    *)
(* program counter per suspension point, the topic actor's fan-out join,   *)
(* the subscription actor's delete-awaits-topic step, tokio Notify         *)
(* (permit bit, FIFO waiters, notify_waiters generation counter,           *)
(* forwarding on drop), the one-shot deletion signal, the randomised       *)
(* select!, and caller cancellation at every suspension point.             *)
(*                                                                         *)
(* One topic, a set of subscriptions.  Message identity is abstracted to   *)
(* counts (backlog / outstanding per subscription): the properties decided *)
(* here are about progress, wake-ups, release and atomicity (C06, C07,     *)
(* C12, C16); message-level properties live in PubSubCore.                 *)
(*                                                                         *)
(* Switches select between what the pinned tree did and what the repaired  *)
(* tree does, and a few deliberate design mutations (vacuity control).     *)
(***************************************************************************)
EXTENDS Integers, Sequences, FiniteSets, TLC

CONSTANTS
    Subs,           \* subscription names
    Procs,          \* process ids
    Kind,           \* Procs -> "publish" | "delete" | "pull" | "bpull" | "stream" | "ack" | "nack" | "create" | "list" | "tdelete"
    Target,         \* Procs -> the subscription a process addresses (ignored for publish / list / tdelete)
    CAP,            \* mailbox capacity
    MaxExpire,      \* bound on expiry steps
    AllowCancel,    \* set of processes whose caller may be dropped
    InitAttached,   \* subscriptions that exist (and are attached) initially
    InitBacklog,    \* initial backlog of every existing subscription
    \* --- switches: TRUE = repaired behaviour
    DeleteDrainsMailbox,    \* D1: the subscription actor keeps serving its mailbox while it waits for the topic
    SecondDeleteWaits,      \* a Delete drained during a deletion in progress is answered when that deletion is done
    ExitDrainsGranted,      \* an exiting actor closes its mailbox and drains the requests whose senders held a permit
    ClosedMeansNotFound,    \* D2: a stream whose pull hits a closed mailbox ends with NOT_FOUND
    PullWatchesDeleted,     \* D3: a blocked pull also waits on the deletion signal
    AttachDetached,         \* D4: the attach step of create runs in its own task
    PullHandsOnWakeup,      \* D7: a pull dropped while it waits for a mailbox permit re-notifies
    \* --- design mutations (must be FALSE in the real configurations)
    RemoveSendOutsideDrainLoop,   \* mutation: the deleting actor first waits for room in the topic's mailbox
                                  \* (not serving its own meanwhile) and only then drains while it waits for the answer
    NoRenotifyAfterPartialPull,
    SignalCreatedAfterPull,
    PostDoesNotNotify

VARIABLES
    tbox,       \* topic mailbox: FIFO of requests; the first CAP are in the box, the rest are parked senders
    sbox,       \* [Subs -> FIFO of requests]
    tdeleted,   \* the topic was deleted (its actor lives on as long as a handle exists)
    sclosed,    \* [Subs -> BOOLEAN]: the subscription actor has exited
    tbusy,      \* "idle" | "publishing"
    tpub,       \* the process whose publish is being handled (or "none")
    attached,   \* set of subscriptions in the topic's list
    exists,     \* set of subscriptions registered in the manager
    sbusy,      \* [Subs -> "idle" | "delwait"]: delwait = Delete handler awaits the topic's answer
    sdeleter,   \* [Subs -> process whose Delete is being handled]
    salso,      \* [Subs -> set of processes whose Delete arrived while a deletion was in progress]
    deleted,    \* [Subs -> BOOLEAN] the actor's deleted flag
    backlog,    \* [Subs -> Nat]
    leased,     \* [Subs -> Nat]
    expiries,   \* number of expiry steps taken
    permit,     \* [Subs -> BOOLEAN]   Notify: stored permit
    waiters,    \* [Subs -> Seq(Procs)] Notify: FIFO of waiting futures
    gen,        \* [Subs -> Nat]       Notify: notify_waiters call counter
    delsig,     \* [Subs -> BOOLEAN]   the one-shot deletion signal
    pc,         \* [Procs -> program counter]
    sig,        \* [Procs -> state of the process' Notified future]: "none" | "init" | "waiting" | "notified" | "released" | "done"
    sgen,       \* [Procs -> the notify_waiters counter an "init" future remembers]
    res,        \* [Procs -> outcome]
    got         \* [Procs -> number of messages a consumer received]

vars == <<tbox, sbox, tdeleted, sclosed, tbusy, tpub, attached, exists, sbusy, sdeleter, salso, deleted, backlog, leased,
          expiries, permit, waiters, gen, delsig, pc, sig, sgen, res, got>>

Topic == "T"
\* A request in a mailbox FIFO.  `ready`: its sender has put it into the channel.  A sender that
\* finds a free permit sends in one step; a parked sender is GRANTED a permit when a slot frees up
\* (its entry moves within the first CAP positions) but the request only becomes visible to the
\* receiver when the sender is polled again (SenderPush).
Req(kind, from, arg) == [kind |-> kind, from |-> from, arg |-> arg, ready |-> TRUE]
Send(box, r) == Append(box, [r EXCEPT !.ready = FALSE])
\* The request the receiver gets next: the first ready one among the granted positions.
ReadyIdx(box) == {i \in 1..Len(box) : i <= CAP /\ box[i].ready}
HasReady(box) == ReadyIdx(box) # {}
NextIdx(box) == CHOOSE i \in ReadyIdx(box) : \A j \in ReadyIdx(box) : i <= j
NextReq(box) == box[NextIdx(box)]
Dequeue(box) == [i \in 1..(Len(box) - 1) |-> IF i < NextIdx(box) THEN box[i] ELSE box[i + 1]]

InBox(box, i) == i <= CAP
PosOf(box, p) == CHOOSE i \in 1..Len(box) : box[i].from = p
HasReq(box, p) == \E i \in 1..Len(box) : box[i].from = p
RemoveFrom(box, p) == SelectSeq(box, LAMBDA r : r.from # p)
\* A sender that has not put its request in yet (parked, or granted but not pushed) can be
\* withdrawn; a request that is in the channel stays.
Withdraw(box, p) ==
    IF HasReq(box, p) /\ ~box[PosOf(box, p)].ready THEN RemoveFrom(box, p) ELSE box

IsConsumer(p) == Kind[p] \in {"bpull", "stream"}
Finished(p) == pc[p] \in {"done", "cancelled"}

(***************************************************************************)
(* tokio Notify.                                                           *)
(***************************************************************************)
NotifyOne(s, w, pm, sg) ==
    \* returns <<waiters', permit', sig'>>
    IF w[s] # <<>>
    THEN <<[w EXCEPT ![s] = Tail(@)], pm, [sg EXCEPT ![Head(w[s])] = "notified"]>>
    ELSE <<w, [pm EXCEPT ![s] = TRUE], sg>>

NotifyWaiters(s, w, sg) ==
    \* every waiting future is released; no permit is stored
    <<[w EXCEPT ![s] = <<>>],
      [p \in Procs |-> IF \E i \in 1..Len(w[s]) : w[s][i] = p THEN "released" ELSE sg[p]]>>

(***************************************************************************)
(* Initial state.                                                          *)
(***************************************************************************)
Init ==
    /\ tbox = <<>> /\ sbox = [s \in Subs |-> <<>>]
    /\ tdeleted = FALSE /\ sclosed = [s \in Subs |-> FALSE]
    /\ tbusy = "idle" /\ tpub = "none"
    /\ attached = InitAttached /\ exists = InitAttached
    /\ sbusy = [s \in Subs |-> "idle"] /\ sdeleter = [s \in Subs |-> "none"] /\ salso = [s \in Subs |-> {}]
    /\ deleted = [s \in Subs |-> FALSE]
    /\ backlog = [s \in Subs |-> IF s \in InitAttached THEN InitBacklog ELSE 0]
    /\ leased = [s \in Subs |-> 0]
    /\ expiries = 0
    /\ permit = [s \in Subs |-> FALSE] /\ waiters = [s \in Subs |-> <<>>] /\ gen = [s \in Subs |-> 0]
    /\ delsig = [s \in Subs |-> FALSE]
    /\ pc = [p \in Procs |-> "start"]
    /\ sig = [p \in Procs |-> "none"] /\ sgen = [p \in Procs |-> 0]
    /\ res = [p \in Procs |-> "none"]
    /\ got = [p \in Procs |-> 0]

(***************************************************************************)
(* Callers.  A unary request is: lookup, send (enqueue or park), wait for  *)
(* the answer.  `Send` appends to the FIFO; whether the request is in the  *)
(* box or its sender is parked is a matter of position.                    *)
(***************************************************************************)
SubLookupOk(p) == Target[p] \in exists

\* Non-consumer requests addressed to a subscription.
StartSubReq(p) ==
    /\ pc[p] = "start" /\ Kind[p] \in {"pull", "ack", "nack", "delete"}
    /\ IF ~SubLookupOk(p)
       THEN /\ pc' = [pc EXCEPT ![p] = "done"] /\ res' = [res EXCEPT ![p] = "NOT_FOUND"]
            /\ UNCHANGED <<sbox>>
       ELSE IF sclosed[Target[p]]
       THEN /\ pc' = [pc EXCEPT ![p] = "done"] /\ res' = [res EXCEPT ![p] = "CLOSED"]
            /\ UNCHANGED <<sbox>>
       ELSE /\ sbox' = [sbox EXCEPT ![Target[p]] = Send(@, Req(Kind[p], p, 0))]
            /\ pc' = [pc EXCEPT ![p] = "wait"]
            /\ UNCHANGED res
    /\ UNCHANGED <<tbox, tdeleted, sclosed, tbusy, tpub, attached, exists, sbusy, sdeleter, salso, deleted, backlog, leased,
                   expiries, permit, waiters, gen, delsig, sig, sgen, got>>

\* Requests addressed to the topic.
StartTopicReq(p) ==
    /\ pc[p] = "start" /\ Kind[p] \in {"publish", "list", "tdelete"}
    /\ tbox' = Send(tbox, Req(Kind[p], p, 0))
    /\ pc' = [pc EXCEPT ![p] = "wait"]
    /\ UNCHANGED <<sbox, tdeleted, sclosed, tbusy, tpub, attached, exists, sbusy, sdeleter, salso, deleted, backlog, leased,
                   expiries, permit, waiters, gen, delsig, sig, sgen, res, got>>

\* CreateSubscription: manager insert, then the attach request to the topic.
StartCreate(p) ==
    /\ pc[p] = "start" /\ Kind[p] = "create"
    /\ IF Target[p] \in exists
       THEN /\ pc' = [pc EXCEPT ![p] = "done"] /\ res' = [res EXCEPT ![p] = "ALREADY_EXISTS"]
            /\ UNCHANGED <<tbox, exists>>
       ELSE /\ exists' = exists \cup {Target[p]}
            /\ tbox' = Send(tbox, Req("attach", p, Target[p]))
            /\ pc' = [pc EXCEPT ![p] = "wait"]
            /\ UNCHANGED res
    /\ UNCHANGED <<sbox, tdeleted, sclosed, tbusy, tpub, attached, sbusy, sdeleter, salso, deleted, backlog, leased,
                   expiries, permit, waiters, gen, delsig, sig, sgen, got>>

(***************************************************************************)
(* The topic actor.                                                        *)
(***************************************************************************)
Answer(p, r, pcs, rs) ==
    \* the caller may have gone away: then the answer is dropped
    <<IF pcs[p] = "wait" THEN [pcs EXCEPT ![p] = "done"] ELSE pcs,
      IF pcs[p] = "wait" THEN [rs EXCEPT ![p] = r] ELSE rs>>

TopicTurn ==
    /\ tbusy = "idle" /\ HasReady(tbox)
    /\ LET r == NextReq(tbox) IN
       /\ tbox' = Dequeue(tbox)
       /\ CASE r.kind = "attach" ->
                 /\ attached' = attached \cup {r.arg}
                 /\ LET a == Answer(r.from, "OK", pc, res) IN pc' = a[1] /\ res' = a[2]
                 /\ UNCHANGED <<sbox, tbusy, tpub, sbusy, sdeleter, deleted, delsig, waiters, sig, exists, backlog, leased>>
            [] r.kind = "list" ->
                 /\ LET a == Answer(r.from, "OK", pc, res) IN pc' = a[1] /\ res' = a[2]
                 /\ UNCHANGED <<sbox, tbusy, tpub, attached, sbusy, sdeleter, deleted, delsig, waiters, sig, exists, backlog, leased>>
            [] r.kind = "tdelete" ->
                 /\ attached' = {} /\ tdeleted' = TRUE
                 /\ LET a == Answer(r.from, "OK", pc, res) IN pc' = a[1] /\ res' = a[2]
                 /\ UNCHANGED <<sbox, tbusy, tpub, sbusy, sdeleter, deleted, delsig, waiters, sig, exists, backlog, leased>>
            [] r.kind = "remove" ->
                 \* asked by the subscription actor r.arg, which is waiting for this answer
                 /\ attached' = attached \ {r.arg}
                 /\ sbusy' = [sbusy EXCEPT ![r.arg] = "delresume"]
                 /\ UNCHANGED <<sbox, tbusy, tpub, sdeleter, deleted, delsig, waiters, sig, exists, backlog, leased, pc, res>>
            [] r.kind = "publish" ->
                 \* ids assigned; one post per attached subscription is sent concurrently
                 IF \E s \in attached : sclosed[s]
                 THEN \* a post fails at once with Closed: the publish fails
                      /\ LET a == Answer(r.from, "CLOSED", pc, res) IN pc' = a[1] /\ res' = a[2]
                      /\ UNCHANGED <<sbox, tbusy, tpub, attached, sbusy, sdeleter, deleted, delsig, waiters, sig, exists, backlog, leased>>
                 ELSE /\ sbox' = [s \in Subs |-> IF s \in attached THEN Send(sbox[s], Req("post", Topic, 0)) ELSE sbox[s]]
                      /\ tbusy' = "publishing" /\ tpub' = r.from
                      /\ UNCHANGED <<attached, sbusy, sdeleter, deleted, delsig, waiters, sig, exists, backlog, leased, pc, res>>
    /\ (NextReq(tbox).kind # "tdelete" => UNCHANGED tdeleted)
    /\ UNCHANGED <<sclosed, expiries, permit, gen, sgen, got, salso>>

\* All posts of the current publish are in their mailboxes (or consumed): answer the publisher.
PostParked(s) == \E i \in 1..Len(sbox[s]) : sbox[s][i].kind = "post" /\ ~sbox[s][i].ready
TopicPublishDone ==
    /\ tbusy = "publishing"
    /\ \A s \in Subs : ~PostParked(s)
    /\ tbusy' = "idle" /\ tpub' = "none"
    /\ LET a == Answer(tpub, "OK", pc, res) IN pc' = a[1] /\ res' = a[2]
    /\ UNCHANGED <<tbox, sbox, tdeleted, sclosed, attached, exists, sbusy, sdeleter, salso, deleted, backlog, leased,
                   expiries, permit, waiters, gen, delsig, sig, sgen, got>>

(***************************************************************************)
(* The subscription actor.                                                 *)
(***************************************************************************)
\* Effect of a request on an actor that is NOT waiting in its Delete handler.
SubHandle(s, r) ==
    CASE r.kind = "post" ->
            IF deleted[s]
            THEN UNCHANGED <<backlog, leased, permit, waiters, sig, pc, res, got, deleted, sbusy, sdeleter, tbox>>
            ELSE /\ backlog' = [backlog EXCEPT ![s] = @ + 1]
                 /\ IF PostDoesNotNotify
                    THEN UNCHANGED <<permit, waiters, sig>>
                    ELSE LET n == NotifyOne(s, waiters, permit, sig) IN waiters' = n[1] /\ permit' = n[2] /\ sig' = n[3]
                 /\ UNCHANGED <<leased, pc, res, got, deleted, sbusy, sdeleter, tbox>>
      [] r.kind \in {"pull", "cpull"} ->
            \* cpull = the pull of a blocking / streaming consumer (answer goes to its loop)
            LET n == IF deleted[s] THEN 0 ELSE IF backlog[s] >= 1 THEN 1 ELSE 0
                left == backlog[s] - n IN
            /\ backlog' = [backlog EXCEPT ![s] = left]
            /\ leased' = [leased EXCEPT ![s] = @ + n]
            /\ IF left > 0 /\ ~deleted[s] /\ ~NoRenotifyAfterPartialPull
               THEN LET nn == NotifyOne(s, waiters, permit, sig) IN waiters' = nn[1] /\ permit' = nn[2] /\ sig' = nn[3]
               ELSE UNCHANGED <<permit, waiters, sig>>
            /\ IF pc[r.from] = "wait"
               THEN /\ pc' = [pc EXCEPT ![r.from] = IF r.kind = "pull" THEN "done" ELSE "pulled"]
                    /\ res' = [res EXCEPT ![r.from] = IF r.kind = "pull" THEN "OK" ELSE IF n > 0 THEN "MSG" ELSE "EMPTY"]
                    /\ got' = [got EXCEPT ![r.from] = @ + n]
               ELSE UNCHANGED <<pc, res, got>>      \* caller gone: the messages stay outstanding and expire
            /\ UNCHANGED <<deleted, sbusy, sdeleter, tbox>>
      [] r.kind = "ack" ->
            /\ leased' = [leased EXCEPT ![s] = IF @ > 0 /\ ~deleted[s] THEN @ - 1 ELSE @]
            /\ LET a == Answer(r.from, "OK", pc, res) IN pc' = a[1] /\ res' = a[2]
            /\ UNCHANGED <<backlog, permit, waiters, sig, got, deleted, sbusy, sdeleter, tbox>>
      [] r.kind = "nack" ->
            /\ IF leased[s] > 0 /\ ~deleted[s]
               THEN /\ leased' = [leased EXCEPT ![s] = @ - 1]
                    /\ backlog' = [backlog EXCEPT ![s] = @ + 1]
               ELSE UNCHANGED <<leased, backlog>>
            /\ IF ~deleted[s] /\ (backlog[s] > 0 \/ leased[s] > 0)
               THEN LET nn == NotifyOne(s, waiters, permit, sig) IN waiters' = nn[1] /\ permit' = nn[2] /\ sig' = nn[3]
               ELSE UNCHANGED <<permit, waiters, sig>>
            /\ LET a == Answer(r.from, "OK", pc, res) IN pc' = a[1] /\ res' = a[2]
            /\ UNCHANGED <<got, deleted, sbusy, sdeleter, tbox>>
      [] r.kind = "delete" ->
            IF deleted[s] /\ sbusy[s] = "delwait" /\ SecondDeleteWaits
            THEN \* remembered; answered by SubDeleteResume
                 UNCHANGED <<backlog, leased, permit, waiters, sig, pc, res, got, deleted, sbusy, sdeleter, tbox>>
            ELSE IF deleted[s]
            THEN /\ LET a == Answer(r.from, "OK", pc, res) IN pc' = a[1] /\ res' = a[2]
                 /\ UNCHANGED <<backlog, leased, permit, waiters, sig, got, deleted, sbusy, sdeleter, tbox>>
            ELSE \* set the flag, ask the topic to drop us, wait for its answer
                 /\ deleted' = [deleted EXCEPT ![s] = TRUE]
                 /\ tbox' = Send(tbox, Req("remove", s, s))
                 /\ sbusy' = [sbusy EXCEPT ![s] = "delwait"]
                 /\ sdeleter' = [sdeleter EXCEPT ![s] = r.from]
                 /\ UNCHANGED <<backlog, leased, permit, waiters, sig, pc, res, got>>

\* The remove request of the deleting subscription s is no longer waiting for room in the topic's mailbox.
RemoveEnqueued(s) == ~\E i \in 1..Len(tbox) : tbox[i].kind = "remove" /\ tbox[i].from = s /\ i > CAP

SubTurn(s) ==
    /\ ~sclosed[s] /\ HasReady(sbox[s])
    /\ \/ sbusy[s] = "idle"
       \/ (sbusy[s] = "delwait" /\ DeleteDrainsMailbox      \* repaired: keeps serving (no-ops) while waiting
           /\ (RemoveSendOutsideDrainLoop => RemoveEnqueued(s)))
    /\ sbox' = [sbox EXCEPT ![s] = Dequeue(@)]
    /\ SubHandle(s, NextReq(sbox[s]))
    /\ salso' = IF NextReq(sbox[s]).kind = "delete" /\ deleted[s] /\ sbusy[s] = "delwait" /\ SecondDeleteWaits
                THEN [salso EXCEPT ![s] = @ \cup {NextReq(sbox[s]).from}] ELSE salso
    /\ UNCHANGED <<tdeleted, sclosed, tbusy, tpub, attached, exists, expiries, gen, delsig, sgen>>

\* The topic answered the removal: manager removal, deletion signal, clear, answer the deleter.
SubDeleteResume(s) ==
    /\ sbusy[s] = "delresume"
    /\ sbusy' = [sbusy EXCEPT ![s] = "idle"]
    /\ exists' = exists \ {s}
    /\ delsig' = [delsig EXCEPT ![s] = TRUE]
    /\ gen' = [gen EXCEPT ![s] = @ + 1]
    /\ LET n == NotifyWaiters(s, waiters, sig) IN waiters' = n[1] /\ sig' = n[2]
    /\ backlog' = [backlog EXCEPT ![s] = 0] /\ leased' = [leased EXCEPT ![s] = 0]
    /\ pc' = [p \in Procs |-> IF (p = sdeleter[s] \/ p \in salso[s]) /\ pc[p] = "wait" THEN "done" ELSE pc[p]]
    /\ res' = [p \in Procs |-> IF (p = sdeleter[s] \/ p \in salso[s]) /\ pc[p] = "wait" THEN "OK" ELSE res[p]]
    /\ sdeleter' = [sdeleter EXCEPT ![s] = "none"] /\ salso' = [salso EXCEPT ![s] = {}]
    /\ UNCHANGED <<tbox, sbox, tdeleted, sclosed, tbusy, tpub, attached, deleted, expiries, permit, sgen, got>>

\* The actor task ends: the mailbox closes, queued requests are dropped (their callers see
\* Closed), parked senders fail.
SubExit(s) ==
    /\ delsig[s] /\ ~sclosed[s] /\ sbusy[s] = "idle"
    /\ sclosed' = [sclosed EXCEPT ![s] = TRUE]
    /\ sbox' = [sbox EXCEPT ![s] = <<>>]
    \* Requests in the channel are dropped and parked senders fail: their callers see Closed.  A
    \* sender that was granted a permit but has not pushed yet puts its request into the dead
    \* channel later - nobody ever answers or drops it - unless the actor drains on exit.
    /\ LET failed(p) == /\ HasReq(sbox[s], p) /\ pc[p] = "wait"
                         /\ \/ ExitDrainsGranted
                            \/ sbox[s][PosOf(sbox[s], p)].ready
                            \/ ~InBox(sbox[s], PosOf(sbox[s], p))
       IN /\ pc' = [p \in Procs |-> IF failed(p) THEN (IF Kind[p] \in {"bpull", "stream"} THEN "pulled" ELSE "done") ELSE pc[p]]
          /\ res' = [p \in Procs |-> IF failed(p) THEN "CLOSED" ELSE res[p]]
    /\ UNCHANGED <<tbox, tdeleted, tbusy, tpub, attached, exists, sbusy, sdeleter, salso, deleted, backlog, leased,
                   expiries, permit, waiters, gen, delsig, sig, sgen, got>>

\* An outstanding delivery expires (the actor is in its select loop, not inside a handler).
SubExpire(s) ==
    /\ ~sclosed[s] /\ sbusy[s] = "idle" /\ ~deleted[s] /\ leased[s] > 0 /\ expiries < MaxExpire
    /\ expiries' = expiries + 1
    /\ leased' = [leased EXCEPT ![s] = @ - 1]
    /\ backlog' = [backlog EXCEPT ![s] = @ + 1]
    /\ LET n == NotifyOne(s, waiters, permit, sig) IN waiters' = n[1] /\ permit' = n[2] /\ sig' = n[3]
    /\ UNCHANGED <<tbox, sbox, tdeleted, sclosed, tbusy, tpub, attached, exists, sbusy, sdeleter, salso, deleted,
                   gen, delsig, pc, sgen, res, got>>

(***************************************************************************)
(* Consumers (api/subscriber.rs): create the signal, pull, return or wait. *)
(***************************************************************************)
\* Dropping a Notified future: a waiting one leaves the list, a notified one forwards its
\* wake-up (tokio), anything else is just gone.  Returns <<waiters', permit', sig'>>.
DropSig(p) ==
    LET s == Target[p] IN
    IF sig[p] = "waiting"
    THEN <<[waiters EXCEPT ![s] = SelectSeq(@, LAMBDA q : q # p)], permit, [sig EXCEPT ![p] = "done"]>>
    ELSE IF sig[p] = "notified"
    THEN LET n == NotifyOne(s, waiters, permit, sig) IN <<n[1], n[2], [n[3] EXCEPT ![p] = "done"]>>
    ELSE <<waiters, permit, [sig EXCEPT ![p] = "done"]>>

ConsLookup(p) ==
    /\ pc[p] = "start" /\ IsConsumer(p)
    /\ IF ~SubLookupOk(p)
       THEN pc' = [pc EXCEPT ![p] = "done"] /\ res' = [res EXCEPT ![p] = "NOT_FOUND"]
       ELSE pc' = [pc EXCEPT ![p] = "loop"] /\ UNCHANGED res
    /\ UNCHANGED <<tbox, sbox, tdeleted, sclosed, tbusy, tpub, attached, exists, sbusy, sdeleter, salso, deleted, backlog, leased,
                   expiries, permit, waiters, gen, delsig, sig, sgen, got>>

\* `let signal = subscription.messages_available();` then send the pull.
ConsSignalAndSend(p) ==
    /\ pc[p] = "loop" /\ IsConsumer(p)
    /\ LET s == Target[p] IN
       /\ sig' = [sig EXCEPT ![p] = IF SignalCreatedAfterPull THEN "none" ELSE "init"]
       /\ sgen' = [sgen EXCEPT ![p] = gen[s]]
       /\ IF sclosed[s]
          THEN /\ pc' = [pc EXCEPT ![p] = "pulled"] /\ res' = [res EXCEPT ![p] = "CLOSED"] /\ UNCHANGED sbox
          ELSE /\ sbox' = [sbox EXCEPT ![s] = Send(@, Req("cpull", p, 0))]
               /\ pc' = [pc EXCEPT ![p] = "wait"] /\ UNCHANGED res
    /\ UNCHANGED <<tbox, tdeleted, sclosed, tbusy, tpub, attached, exists, sbusy, sdeleter, salso, deleted, backlog, leased,
                   expiries, permit, waiters, gen, delsig, got>>

\* The pull was answered.
ConsAfterPull(p) ==
    /\ pc[p] = "pulled" /\ IsConsumer(p)
    /\ LET s == Target[p] IN
       IF res[p] = "CLOSED"
       THEN \* unary pull: conflict status.  stream: silent return (pinned) or NOT_FOUND (repaired)
            /\ pc' = [pc EXCEPT ![p] = IF Kind[p] = "stream" /\ ~ClosedMeansNotFound THEN "silent" ELSE "done"]
            /\ res' = [res EXCEPT ![p] = IF Kind[p] = "stream"
                                           THEN (IF ClosedMeansNotFound THEN "NOT_FOUND" ELSE "SILENT")
                                           ELSE "FAILED_PRECONDITION"]
            /\ UNCHANGED <<sig, sgen>>
       ELSE IF res[p] = "MSG" /\ Kind[p] = "bpull"
       THEN /\ pc' = [pc EXCEPT ![p] = "done"] /\ res' = [res EXCEPT ![p] = "OK"] /\ UNCHANGED <<sig, sgen>>
       ELSE \* a stream yields what it got and then waits; an empty unary pull waits
            /\ pc' = [pc EXCEPT ![p] = "await"]
            /\ sig' = [sig EXCEPT ![p] = IF SignalCreatedAfterPull THEN "init" ELSE @]
            /\ sgen' = [sgen EXCEPT ![p] = IF SignalCreatedAfterPull THEN gen[s] ELSE @]
            /\ UNCHANGED res
    /\ UNCHANGED <<tbox, sbox, tdeleted, sclosed, tbusy, tpub, attached, exists, sbusy, sdeleter, salso, deleted, backlog, leased,
                   expiries, permit, waiters, gen, delsig, got>>

SigReady(p) ==
    LET s == Target[p] IN
    \/ sig[p] \in {"notified", "released"}
    \/ (sig[p] = "init" /\ (sgen[p] # gen[s] \/ permit[s]))
WatchesDeleted(p) == Kind[p] = "stream" \/ PullWatchesDeleted

\* A poll of the wait: something is ready, or the future parks in the waiter list.
ConsAwait(p) ==
    /\ pc[p] = "await" /\ IsConsumer(p)
    /\ LET s == Target[p] IN
       \/ \* the messages signal wins
          /\ SigReady(p)
          \* a stored permit is tried first, even if notify_waiters was called since the creation
          \* (checked against the real primitive by bin/check-notify)
          /\ permit' = [permit EXCEPT ![s] = IF sig[p] = "init" /\ permit[s] THEN FALSE ELSE @]
          /\ sig' = [sig EXCEPT ![p] = "done"]
          /\ pc' = [pc EXCEPT ![p] = "loop"]
          /\ UNCHANGED <<waiters, res>>
       \/ \* the deletion signal wins (select! may pick either ready branch)
          /\ WatchesDeleted(p) /\ delsig[s]
          /\ pc' = [pc EXCEPT ![p] = "done"] /\ res' = [res EXCEPT ![p] = "NOT_FOUND"]
          /\ LET d == DropSig(p) IN waiters' = d[1] /\ permit' = d[2] /\ sig' = d[3]
       \/ \* nothing ready: park
          /\ ~SigReady(p) /\ ~(WatchesDeleted(p) /\ delsig[s])
          /\ sig[p] = "init"
          /\ sig' = [sig EXCEPT ![p] = "waiting"]
          /\ waiters' = [waiters EXCEPT ![s] = Append(@, p)]
          /\ UNCHANGED <<permit, pc, res>>
    /\ UNCHANGED <<tbox, sbox, tdeleted, sclosed, tbusy, tpub, attached, exists, sbusy, sdeleter, salso, deleted, backlog, leased,
                   expiries, gen, delsig, sgen, got>>

\* A blocked unary pull returns empty when its own wait limit fires (the only timer that may
\* end a request).
PullTimeout(p) ==
    /\ pc[p] = "await" /\ Kind[p] = "bpull" /\ sig[p] = "waiting"
    /\ pc' = [pc EXCEPT ![p] = "done"] /\ res' = [res EXCEPT ![p] = "TIMEOUT_EMPTY"]
    /\ LET d == DropSig(p) IN waiters' = d[1] /\ permit' = d[2] /\ sig' = d[3]
    /\ UNCHANGED <<tbox, sbox, tdeleted, sclosed, tbusy, tpub, attached, exists, sbusy, sdeleter, salso, deleted, backlog, leased,
                   expiries, gen, delsig, sgen, got>>

(***************************************************************************)
(* Cancellation: the caller's future is dropped at a suspension point.     *)
(***************************************************************************)
Cancel(p) ==
    /\ p \in AllowCancel
    /\ pc[p] \in {"wait", "await"}
    /\ pc' = [pc EXCEPT ![p] = "cancelled"]
    /\ res' = [res EXCEPT ![p] = "CANCELLED"]
    /\ \* a parked sender leaves the permit queue; a request in the box stays
       sbox' = [x \in Subs |-> Withdraw(sbox[x], p)]
    /\ IF Kind[p] = "create" /\ AttachDetached
       THEN UNCHANGED tbox       \* the attach step runs in its own task and is not dropped
       ELSE tbox' = Withdraw(tbox, p)
    /\ LET d  == DropSig(p)
           s  == Target[p]
           \* a pull that is dropped while its send is parked passes the wake-up on (repaired)
           parkedPull == /\ PullHandsOnWakeup /\ Kind[p] \in {"pull", "bpull", "stream"} /\ pc[p] = "wait"
                         /\ HasReq(sbox[s], p) /\ ~sbox[s][PosOf(sbox[s], p)].ready
           n  == NotifyOne(s, d[1], d[2], d[3])
       IN IF parkedPull
          THEN waiters' = n[1] /\ permit' = n[2] /\ sig' = n[3]
          ELSE waiters' = d[1] /\ permit' = d[2] /\ sig' = d[3]
    /\ UNCHANGED <<tdeleted, sclosed, tbusy, tpub, attached, exists, sbusy, sdeleter, salso, deleted, backlog, leased,
                   expiries, gen, delsig, sgen, got>>

(***************************************************************************)
(* Next.                                                                   *)
(***************************************************************************)
ProcStep(p) ==
    \/ StartSubReq(p) \/ StartTopicReq(p) \/ StartCreate(p)
    \/ ConsLookup(p) \/ ConsSignalAndSend(p) \/ ConsAfterPull(p) \/ ConsAwait(p)

\* A sender that was granted a permit is polled again and puts its request into the channel.
SenderPush ==
    \/ \E i \in 1..Len(tbox) :
          /\ i <= CAP /\ ~tbox[i].ready
          /\ tbox' = [tbox EXCEPT ![i].ready = TRUE]
          /\ UNCHANGED <<sbox, tdeleted, sclosed, tbusy, tpub, attached, exists, sbusy, sdeleter, salso, deleted, backlog, leased,
                          expiries, permit, waiters, gen, delsig, pc, sig, sgen, res, got>>
    \/ \E s \in Subs : \E i \in 1..Len(sbox[s]) :
          /\ i <= CAP /\ ~sbox[s][i].ready /\ ~sclosed[s]
          /\ sbox' = [sbox EXCEPT ![s][i].ready = TRUE]
          /\ UNCHANGED <<tbox, tdeleted, sclosed, tbusy, tpub, attached, exists, sbusy, sdeleter, salso, deleted, backlog, leased,
                          expiries, permit, waiters, gen, delsig, pc, sig, sgen, res, got>>

ActorStep ==
    \/ TopicTurn \/ TopicPublishDone \/ SenderPush
    \/ \E s \in Subs : SubTurn(s) \/ SubDeleteResume(s) \/ SubExit(s)

Progress == ActorStep \/ \E p \in Procs : ProcStep(p)

\* Everything that can end has ended: stutter (so that TLC's deadlock check only fires on real hangs).
AllQuiet ==
    /\ \A p \in Procs : Finished(p) \/ (IsConsumer(p) /\ pc[p] = "await" /\ sig[p] = "waiting") \/ pc[p] = "silent"
    /\ tbox = <<>> /\ \A s \in Subs : sbox[s] = <<>> \/ sclosed[s]
    /\ tbusy = "idle" /\ \A s \in Subs : sbusy[s] = "idle"

Quiesce == AllQuiet /\ ~(ENABLED Progress) /\ UNCHANGED vars

Next ==
    \/ Progress
    \/ \E s \in Subs : SubExpire(s)
    \/ \E p \in Procs : Cancel(p)
    \/ \E p \in Procs : PullTimeout(p)
    \/ Quiesce

Spec == Init /\ [][Next]_vars /\ WF_vars(Progress)

\* Fairness per component (every actor, every pending sender, every caller keeps being scheduled
\* - the tokio scheduler is fair); timers, cancellations and clients' new requests are not forced.
LiveSpec ==
    /\ Init /\ [][Next]_vars
    /\ WF_vars(TopicTurn) /\ WF_vars(TopicPublishDone) /\ WF_vars(SenderPush)
    /\ \A s \in Subs : WF_vars(SubTurn(s)) /\ WF_vars(SubDeleteResume(s)) /\ WF_vars(SubExit(s))
    /\ \A p \in Procs : WF_vars(ProcStep(p))

(***************************************************************************)
(* Properties.                                                             *)
(***************************************************************************)
\* Stable: no actor or caller step is enabled (only timers and clients could move).
Stable == ~(ENABLED Progress)

Parked(p) == IsConsumer(p) /\ pc[p] = "await" /\ sig[p] = "waiting"

\* C07: a state in which some non-consumer request is pending and nothing but timers can
\* move is a hang.  (TLC's deadlock check catches the states without any successor; this
\* invariant also catches hangs that expiry or cancellation steps would mask.)
C07_NoHang ==
    Stable => \A p \in Procs : ~IsConsumer(p) => (Finished(p) \/ pc[p] = "start")

\* C07 as a liveness property (under LiveSpec): every request that was sent is eventually answered
\* or withdrawn - also excludes livelocks, which the stable-state invariant cannot see.
C07_Answered == \A p \in Procs : (~IsConsumer(p) /\ pc[p] = "wait") ~> (pc[p] # "wait")

\* C06 as a liveness property: a consumer is not left parked for ever next to a non-empty backlog.
C06_Woken ==
    \A p \in Procs : (Parked(p) /\ backlog[Target[p]] > 0 /\ ~deleted[Target[p]])
                         ~> ~(Parked(p) /\ backlog[Target[p]] > 0 /\ ~deleted[Target[p]])

\* C12 as a liveness property: consumers of a deleted subscription are eventually released.
C12_EventuallyReleased ==
    \A p \in Procs : (IsConsumer(p) /\ pc[p] # "start" /\ delsig[Target[p]]) ~> Finished(p)

C07_ActorsIdle ==
    Stable => (tbusy = "idle" /\ \A s \in Subs : sbusy[s] = "idle")

\* C06: at rest, no message sits in a backlog while a consumer that could take it is parked.
C06_NoLostWake ==
    Stable => \A s \in Subs : (backlog[s] > 0 /\ ~deleted[s]) => ~\E p \in Procs : Parked(p) /\ Target[p] = s

\* C12: at rest, every consumer of a deleted subscription has been released, and a stream
\* ended with NOT_FOUND.
C12_Released ==
    Stable => \A s \in Subs : delsig[s] =>
        \A p \in Procs : (IsConsumer(p) /\ Target[p] = s /\ pc[p] # "start") => Finished(p)
C12_Status ==
    \A p \in Procs : (Kind[p] = "stream" /\ pc[p] = "done" /\ delsig[Target[p]]) => res[p] = "NOT_FOUND"

\* C16: at rest, every subscription that exists is attached, and no actor is stuck in a handler.
\* C10: a DeleteSubscription is answered OK only once the subscription is gone from the manager.
C10_DeleteAnswered ==
    [][\A p \in Procs : (Kind[p] = "delete" /\ pc[p] # "done" /\ pc'[p] = "done" /\ res'[p] = "OK")
                            => Target[p] \notin exists']_vars

C16_Attached ==
    (Stable /\ ~tdeleted) => \A s \in exists : (~deleted[s] => s \in attached)

TypeOK ==
    /\ \A s \in Subs : backlog[s] >= 0 /\ leased[s] >= 0
    /\ \A p \in Procs : pc[p] \in {"start", "wait", "loop", "pulled", "await", "done", "cancelled", "silent"}
=============================================================================
