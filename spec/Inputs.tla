------------------------------- MODULE Inputs -------------------------------
(***************************************************************************)
(* Reference grammar of the textual inputs of the API.  Strings are        *)
(* sequences of one-character strings (TLC has no string operators), so a  *)
(* resource name is e.g. <<"p","r","o","j","e","c","t","s","/","a",...>>.  *)
(*                                                                         *)
(* C18: a string is accepted as a topic name ONLY IF it is                 *)
(*   projects/ [project, non-empty, no slash] /topics/ [id, non-empty]     *)
(*      (likewise /subscriptions/); the canonical name echoed for an       *)
(*      accepted name is accepted and denotes the same resource; names     *)
(*      that differ in project or id denote different resources.           *)
(***************************************************************************)
EXTENDS Integers, Sequences, FiniteSets, TLC, Json

Chars(str) == str        \* documentation only: inputs already arrive as sequences

PRE == <<"p", "r", "o", "j", "e", "c", "t", "s", "/">>
TOP == <<"/", "t", "o", "p", "i", "c", "s", "/">>
SUB == <<"/", "s", "u", "b", "s", "c", "r", "i", "p", "t", "i", "o", "n", "s", "/">>

StartsWith(s, pre) == Len(s) >= Len(pre) /\ SubSeq(s, 1, Len(pre)) = pre
Drop(s, n) == SubSeq(s, n + 1, Len(s))
HasSlash(s) == \E i \in 1..Len(s) : s[i] = "/"
FirstSlash(s) == CHOOSE i \in 1..Len(s) : s[i] = "/" /\ \A j \in 1..(i - 1) : s[j] # "/"

\* The project part of a candidate name: what follows `projects/` up to the next slash.
RefProject(s) ==
    LET rest == Drop(s, Len(PRE)) IN
    IF StartsWith(s, PRE) /\ HasSlash(rest) THEN SubSeq(rest, 1, FirstSlash(rest) - 1) ELSE <<>>

\* What follows the project: must start with the literal segment; the remainder is the id.
RefTail(s) == Drop(s, Len(PRE) + Len(RefProject(s)))
RefId(s, seg) == IF StartsWith(RefTail(s), seg) THEN Drop(RefTail(s), Len(seg)) ELSE <<>>

IsName(s, seg) ==
    /\ StartsWith(s, PRE)
    /\ RefProject(s) # <<>>
    /\ StartsWith(RefTail(s), seg)
    /\ RefId(s, seg) # <<>>

IsTopicName(s) == IsName(s, TOP)
IsSubName(s) == IsName(s, SUB)
Canon(project, id, seg) == PRE \o project \o seg \o id

(***************************************************************************)
(* Guards on one recorded parse call:                                      *)
(*   e.fn \in {"topic","sub"}, e.input, e.ok, e.project, e.id (parsed),    *)
(*   e.echo (Display of the parsed name), e.echo_ok / e.echo_project /     *)
(*   e.echo_id (the echo parsed again).                                    *)
(***************************************************************************)
SegOf(fn) == IF fn = "topic" THEN TOP ELSE SUB

ParseGuards(e) ==
    LET seg == SegOf(e.fn) IN
    { \* accepted only if it has the required shape
      <<"C18", e.ok => IsName(e.input, seg)>>,
      \* ... and denotes the resource its project and id spell
      <<"C18", e.ok => (e.project = RefProject(e.input) /\ e.id = RefId(e.input, seg))>>,
      \* the canonical echo is the canonical spelling of that resource, is accepted, and
      \* denotes the same resource
      <<"C18", e.ok => e.echo = Canon(e.project, e.id, seg)>>,
      <<"C18", e.ok => (e.echo_ok /\ e.echo_project = e.project /\ e.echo_id = e.id)>>,
      \* a parser never panics (the harness records a panic as ok = "panic")
      <<"C17", e.ok \in BOOLEAN>> }

(***************************************************************************)
(* Case enumeration for TLC: all strings  seg1 . project . seg2 . id  with *)
(* the segments drawn from near-miss variants and project / id over a      *)
(* small alphabet up to a length bound.  The verdict is computed on the    *)
(* concatenated string, not on the pieces.                                 *)
(***************************************************************************)
CONSTANTS Alphabet, MaxLen

Words(n) == UNION {[1..k -> Alphabet] : k \in 0..n}

Seg1Variants == { PRE,
                  <<"p", "r", "o", "j", "e", "c", "t", "s">>,                 \* missing slash
                  <<"p", "r", "o", "j", "e", "c", "t", "/">>,                 \* one char short
                  <<"b", "r", "o", "j", "e", "c", "t", "s", "/">>,            \* one char off
                  <<"p", "r", "o", "j", "e", "c", "t", "s", "/", "/">>,       \* doubled slash
                  <<>> }
Seg2Variants == { TOP, SUB,
                  <<"/", "t", "o", "p", "i", "c", "s">>,                      \* missing slash
                  <<"/", "t", "o", "p", "i", "c", "z", "/">>,                 \* one char off
                  <<"/", "x", "x", "x", "x", "x", "x", "/">>,                 \* same length, garbage
                  <<"/", "t", "o", "p", "i", "c", "/">>,                      \* one char short
                  <<"/", "t", "o", "p", "i", "c", "s", "/", "/">>,            \* doubled slash
                  <<"/", "s", "u", "b", "s", "c", "r", "i", "p", "t", "i", "o", "n", "/">>,
                  <<"/", "s", "u", "b", "s", "c", "r", "i", "p", "t", "i", "o", "n", "z", "/">>,
                  <<"/", "x", "x", "x", "x", "x", "x", "x", "x", "x", "x", "x", "x", "x", "/">>,
                  <<"t", "o", "p", "i", "c", "s", "/">>,                      \* missing leading slash
                  <<"/">>, <<>> }

VARIABLE case
CaseInit == case \in {[s1 |-> a, p |-> p, s2 |-> b, id |-> i] :
                          a \in Seg1Variants, p \in Words(MaxLen), b \in Seg2Variants, i \in Words(MaxLen)}
CaseNext == UNCHANGED case
CaseSpec == CaseInit /\ [][CaseNext]_case

CaseString == case.s1 \o case.p \o case.s2 \o case.id

\* The reference verdict of the case for both parsers, printed once per case.
ToStr(seq) == seq
Emit == PrintT(<<"CASE", ToJson([s |-> CaseString, topic |-> IsTopicName(CaseString), sub |-> IsSubName(CaseString)])>>)

\* Sanity of the grammar itself, checked on every enumerated case: the canonical spelling of
\* an accepted name is the name, and it is accepted; the two kinds are disjoint.
GrammarOK ==
    /\ IsTopicName(CaseString) => Canon(RefProject(CaseString), RefId(CaseString, TOP), TOP) = CaseString
    /\ IsSubName(CaseString) => Canon(RefProject(CaseString), RefId(CaseString, SUB), SUB) = CaseString
    /\ ~(IsTopicName(CaseString) /\ IsSubName(CaseString))
=============================================================================
