------------------------------- MODULE Inputs -------------------------------
(***************************************************************************)
(* Case enumeration over the reference grammar of Names.tla (C18, C17).    *)
(***************************************************************************)
EXTENDS Names

(***************************************************************************)
(* Case enumeration for TLC: all strings  seg1 . project . seg2 . id  with *)
(* the segments drawn from near-miss variants and project / id over a      *)
(* small alphabet up to a length bound.  The verdict is computed on the    *)
(* concatenated string, not on the pieces.                                 *)
(***************************************************************************)
CONSTANTS Alphabet, MaxLen

Words(n) == UNION {[1..k -> Alphabet] : k \in 0..n}

Seg1Variants == { PRE,
                  <<"p", "r", "o", "j", "e", "c", "t", "s">>,                 \* missing slash
                  <<"p", "r", "o", "j", "e", "c", "t", "/">>,                 \* one char short
                  <<"b", "r", "o", "j", "e", "c", "t", "s", "/">>,            \* one char off
                  <<"p", "r", "o", "j", "e", "c", "t", "s", "/", "/">>,       \* doubled slash
                  <<>> }
Seg2Variants == { TOP, SUB,
                  <<"/", "t", "o", "p", "i", "c", "s">>,                      \* missing slash
                  <<"/", "t", "o", "p", "i", "c", "z", "/">>,                 \* one char off
                  <<"/", "x", "x", "x", "x", "x", "x", "/">>,                 \* same length, garbage
                  <<"/", "t", "o", "p", "i", "c", "/">>,                      \* one char short
                  <<"/", "t", "o", "p", "i", "c", "s", "/", "/">>,            \* doubled slash
                  <<"/", "s", "u", "b", "s", "c", "r", "i", "p", "t", "i", "o", "n", "/">>,
                  <<"/", "s", "u", "b", "s", "c", "r", "i", "p", "t", "i", "o", "n", "z", "/">>,
                  <<"/", "x", "x", "x", "x", "x", "x", "x", "x", "x", "x", "x", "x", "x", "/">>,
                  <<"t", "o", "p", "i", "c", "s", "/">>,                      \* missing leading slash
                  <<"/">>, <<>> }

\* Structured components: a project or an id that itself contains (begins with, ends with) one of
\* the literal segments of the grammar - "projects/p/topics//topics/t" is a well-formed name whose
\* id is "/topics/t".
Embedded == { PRE, TOP, SUB, TOP \o TOP, SUB \o TOP,
              <<"t", "o", "p", "i", "c", "s", "/">>, <<"/", "t", "o", "p", "i", "c", "s">>,
              <<"s", "u", "b", "s", "c", "r", "i", "p", "t", "i", "o", "n", "s", "/">> }
Structured == {e \o w : e \in Embedded, w \in Words(1)} \cup {w \o e : e \in Embedded, w \in Words(1)}

VARIABLE case
CaseInit == case \in {[s1 |-> a, p |-> p, s2 |-> b, id |-> i] :
                          a \in Seg1Variants, p \in Words(MaxLen), b \in Seg2Variants, i \in Words(MaxLen)}
                     \cup {[s1 |-> PRE, p |-> p, s2 |-> b, id |-> i] : p \in Words(1), b \in {TOP, SUB}, i \in Structured}
                     \cup {[s1 |-> PRE, p |-> p, s2 |-> b, id |-> i] : p \in Structured, b \in {TOP, SUB}, i \in Words(1)}
CaseNext == UNCHANGED case
CaseSpec == CaseInit /\ [][CaseNext]_case

CaseString == case.s1 \o case.p \o case.s2 \o case.id

\* The reference verdict of the case for both parsers, printed once per case.
ToStr(seq) == seq
Emit == PrintT(<<"CASE", ToJson([s |-> CaseString, topic |-> IsTopicName(CaseString), sub |-> IsSubName(CaseString)])>>)

\* Sanity of the grammar itself, checked on every enumerated case: the canonical spelling of
\* an accepted name is the name, and it is accepted; the two kinds are disjoint.
GrammarOK ==
    /\ IsTopicName(CaseString) => Canon(RefProject(CaseString), RefId(CaseString, TOP), TOP) = CaseString
    /\ IsSubName(CaseString) => Canon(RefProject(CaseString), RefId(CaseString, SUB), SUB) = CaseString
    /\ ~(IsTopicName(CaseString) /\ IsSubName(CaseString))
=============================================================================
