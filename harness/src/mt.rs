//! Multi-threaded executions: the server runs on a multi-thread tokio runtime under the real
//! clock, clients race from several tasks. Events are ordered by the process-wide recorder (every
//! hook event is stamped inside the critical section it describes). Nothing is controlled here:
//! these runs only add schedules that the single-threaded seeded runtime cannot produce.
use crate::ops::{exec, AckRef, CallSpec, MsgSpec};
use crate::world::{write_event, Out, World};
use rand::rngs::StdRng;
use rand::{Rng, SeedableRng};
use serde_json::{json, Value};
use std::sync::Arc;
use std::time::Duration;

fn topic(t: usize) -> String {
    format!("projects/p1/topics/t{}", t)
}
fn sub(s: usize) -> String {
    format!("projects/p1/subscriptions/s{}", s)
}

fn proj_map() -> Value {
    let mut m = serde_json::Map::new();
    for k in 1..=4usize {
        m.insert(topic(k), json!("p1"));
        m.insert(sub(k), json!("p1"));
    }
    Value::Object(m)
}

/// Pulls and acknowledges until a subscription is empty (no deadline is crossed).
async fn drain_fast(world: &Arc<World>, c: usize, names: &[String]) {
    world.ev("mark", json!({"name": "drain"}));
    for name in names {
        for _ in 0..200 {
            let before = world.deliveries.lock().unwrap().get(name).map(|l| l.len()).unwrap_or(0);
            exec(Arc::clone(world), c, CallSpec::Pull { sub: name.clone(), max: 1000, ri: true }).await;
            let after = world.deliveries.lock().unwrap().get(name).map(|l| l.len()).unwrap_or(0);
            if after == before {
                break;
            }
            let acks = (before + 1..=after).map(|d| AckRef::Delivery { d }).collect::<Vec<_>>();
            exec(Arc::clone(world), c, CallSpec::Ack { sub: name.clone(), acks }).await;
        }
    }
}

/// Holds the first thread that reaches the named synchronous window until `open` (at most 3 s).
pub struct WindowGate {
    name: &'static str,
    state: std::sync::Mutex<(bool, bool)>, // (reached, open)
    cv: std::sync::Condvar,
}

impl WindowGate {
    pub fn new(name: &'static str) -> Self {
        Self { name, state: std::sync::Mutex::new((false, false)), cv: std::sync::Condvar::new() }
    }
    pub fn reached(&self) -> bool {
        self.state.lock().unwrap().0
    }
    pub fn open(&self) {
        self.state.lock().unwrap().1 = true;
        self.cv.notify_all();
    }
}

impl deltio::verif::Controller for WindowGate {
    fn poll_point(&self, _name: &'static str, _id: u64, _cx: &mut std::task::Context<'_>) -> bool {
        true
    }
    fn sync_point(&self, name: &'static str, _id: u64) {
        if name != self.name {
            return;
        }
        let mut st = self.state.lock().unwrap();
        if st.0 {
            return; // only the first one is held
        }
        st.0 = true;
        let deadline = std::time::Instant::now() + Duration::from_secs(3);
        while !st.1 {
            let left = deadline.saturating_duration_since(std::time::Instant::now());
            if left.is_zero() {
                break;
            }
            st = self.cv.wait_timeout(st, left).unwrap().0;
        }
    }
}

pub async fn run(seed: u64, profile: &str, out: Option<Out>) -> Vec<Value> {
    let mut rng = StdRng::seed_from_u64(seed ^ 0x33aa_55cc);
    let cap = [16usize, 1, 2][rng.gen_range(0..3)];
    let header = json!({
        "k": "reset", "i": -1, "t": 0, "run": format!("mt-{}-{}", profile, seed), "cap": cap, "seed": seed,
        "meta": {"profile": profile, "clock": "real", "threads": 4, "proj": proj_map()},
    });
    if let Some(out) = &out {
        write_event(out, header.clone());
    }
    deltio::verif::set_global_capacity(cap);
    let world = World::start_global(cap, out).await;
    let mut handles = Vec::new();
    match profile {
        // Pipelining publishers against one topic, consumers that acknowledge everything.
        "pubrace" => {
            exec(Arc::clone(&world), 0, CallSpec::CreateTopic { name: topic(1) }).await;
            exec(Arc::clone(&world), 0, CallSpec::CreateSub { name: sub(1), topic: topic(1), ack: 10, push: None }).await;
            exec(Arc::clone(&world), 0, CallSpec::CreateSub { name: sub(2), topic: topic(1), ack: 10, push: None }).await;
            let publishers = rng.gen_range(2..5);
            let mut c = 1;
            for p in 0..publishers {
                let rounds = rng.gen_range(2..6);
                for r in 0..rounds {
                    // every publish is its own task: the requests sit back to back in the topic's mailbox
                    let world = Arc::clone(&world);
                    let n = rng.gen_range(1..4);
                    let cc = c;
                    c += 1;
                    handles.push(tokio::spawn(async move {
                        let msgs = (0..n).map(|k| MsgSpec { p: format!("p{}r{}k{}", p, r, k) }).collect();
                        let _ = exec(world, cc, CallSpec::Publish { topic: topic(1), msgs }).await;
                    }));
                }
            }
        }
        // The window of a deletion between leaving the manager's map and leaving the push registry
        // (sync point `s.del.registry`), held open while another client creates the same name.
        "regrace" => {
            let gate = Arc::new(WindowGate::new("s.del.registry"));
            deltio::verif::install_global_controller(Some(gate.clone()));
            let old_push = [Some("http://127.0.0.1:9/old"), None][rng.gen_range(0..2)].map(|u| u.to_string());
            let new_push = [Some("http://127.0.0.1:9/new"), Some("http://127.0.0.1:9/old"), None][rng.gen_range(0..3)].map(|u| u.to_string());
            let second_delete = rng.gen_bool(0.3);
            exec(Arc::clone(&world), 0, CallSpec::CreateTopic { name: topic(1) }).await;
            exec(Arc::clone(&world), 0, CallSpec::CreateSub { name: sub(1), topic: topic(1), ack: 10, push: old_push }).await;
            exec(Arc::clone(&world), 0, CallSpec::CreateSub { name: sub(2), topic: topic(1), ack: 10, push: None }).await;
            {
                let world = Arc::clone(&world);
                handles.push(tokio::spawn(async move {
                    let _ = exec(world, 1, CallSpec::DeleteSub { name: sub(1) }).await;
                }));
            }
            {
                let world = Arc::clone(&world);
                let gate = gate.clone();
                handles.push(tokio::spawn(async move {
                    // wait until the deleting actor stands in the window (or gives up)
                    for _ in 0..2000 {
                        if gate.reached() {
                            break;
                        }
                        tokio::time::sleep(Duration::from_millis(1)).await;
                    }
                    let _ = exec(Arc::clone(&world), 2, CallSpec::CreateSub { name: sub(1), topic: topic(1), ack: 10, push: new_push }).await;
                    if second_delete {
                        let _ = exec(Arc::clone(&world), 2, CallSpec::Publish { topic: topic(1), msgs: vec![MsgSpec { p: "mid".into() }] }).await;
                    }
                    gate.open();
                }));
            }
            for h in handles.drain(..) {
                let _ = h.await;
            }
            gate.open();
            deltio::verif::install_global_controller(None);
            if second_delete {
                exec(Arc::clone(&world), 3, CallSpec::DeleteSub { name: sub(1) }).await;
            }
        }
        // Tight create / delete races of one name (the create's attach against the delete's remove).
        "cdrace" => {
            exec(Arc::clone(&world), 0, CallSpec::CreateTopic { name: topic(1) }).await;
            exec(Arc::clone(&world), 0, CallSpec::CreateSub { name: sub(2), topic: topic(1), ack: 10, push: None }).await;
            let mut c = 1;
            for round in 0..rng.gen_range(4..9) {
                let mut pair = Vec::new();
                for which in 0..3 {
                    let world = Arc::clone(&world);
                    let cc = c;
                    c += 1;
                    let spin = rng.gen_range(0..200u32);
                    pair.push(tokio::spawn(async move {
                        for _ in 0..spin {
                            std::hint::spin_loop();
                        }
                        let call = match which {
                            0 => CallSpec::CreateSub { name: sub(1), topic: topic(1), ack: 10, push: None },
                            1 => CallSpec::DeleteSub { name: sub(1) },
                            _ => CallSpec::Publish { topic: topic(1), msgs: vec![MsgSpec { p: format!("r{}-{}", round, cc) }] },
                        };
                        let _ = exec(world, cc, call).await;
                    }));
                }
                for h in pair {
                    let _ = h.await;
                }
            }
        }
        // Create / delete of the same names racing with publishes and pulls.
        _ => {
            exec(Arc::clone(&world), 0, CallSpec::CreateTopic { name: topic(1) }).await;
            exec(Arc::clone(&world), 0, CallSpec::CreateSub { name: sub(2), topic: topic(1), ack: 10, push: None }).await;
            let mut c = 1;
            for _ in 0..rng.gen_range(6..14) {
                let world = Arc::clone(&world);
                let cc = c;
                c += 1;
                let roll = rng.gen_range(0..100);
                let s = sub(rng.gen_range(1..=2));
                let k = rng.gen_range(0..1000);
                handles.push(tokio::spawn(async move {
                    let call = if roll < 35 {
                        CallSpec::CreateSub { name: s, topic: topic(1), ack: 10, push: None }
                    } else if roll < 65 {
                        CallSpec::DeleteSub { name: s }
                    } else if roll < 85 {
                        CallSpec::Publish { topic: topic(1), msgs: vec![MsgSpec { p: format!("c{}-{}", cc, k) }] }
                    } else {
                        CallSpec::Pull { sub: s, max: 2, ri: true }
                    };
                    let _ = exec(world, cc, call).await;
                }));
            }
        }
    }
    for h in handles {
        let _ = h.await;
    }
    // A few more publishes after the race (a topic that lists a dead subscription fails them),
    // the topic-side list, and a drain that crosses no deadline.
    exec(Arc::clone(&world), 90, CallSpec::Publish { topic: topic(1), msgs: vec![MsgSpec { p: "after".into() }] }).await;
    exec(Arc::clone(&world), 90, CallSpec::ListTopicSubs { topic: topic(1), size: 0, token: String::new() }).await;
    exec(Arc::clone(&world), 90, CallSpec::GetSub { name: sub(1) }).await;
    exec(Arc::clone(&world), 90, CallSpec::GetSub { name: sub(2) }).await;
    drain_fast(&world, 99, &[sub(1), sub(2)]).await;
    tokio::time::sleep(Duration::from_millis(2)).await;
    world.ev("end", json!({}));
    deltio::verif::install_global(None);
    deltio::verif::set_global_capacity(0);
    Vec::new()
}
