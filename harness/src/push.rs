//! A scripted local HTTP endpoint for push subscriptions: records every POST it receives as an
//! `http` event (what the body says: subscription, message id, data, attributes) together with
//! the answer it gave, and answers as the scenario's script says.
use crate::world::{attrs_list, digest, split_id, World};
use base64::Engine;
use http_body_util::{BodyExt, Empty};
use hyper::body::Bytes;
use hyper::server::conn::http1;
use hyper::service::service_fn;
use hyper::{Request, Response, StatusCode};
use hyper_util::rt::TokioIo;
use serde::Deserialize;
use serde_json::json;
use std::collections::HashMap;
use std::convert::Infallible;
use std::sync::atomic::{AtomicUsize, Ordering};
use std::sync::{Arc, Mutex};
use std::time::Duration;
use tokio::net::TcpListener;

#[derive(Debug, Clone, Deserialize)]
#[serde(untagged)]
pub enum Outcome {
    /// Answer with this status code.
    Status(u16),
    /// "close": drop the connection without answering; {"delay": ms, "status": code}: answer late.
    Named(String),
    Delayed { delay: u64, status: u16 },
}

pub struct Endpoint {
    pub url: String,
    pub seen: Arc<AtomicUsize>,
    pub task: tokio::task::JoinHandle<()>,
}

pub async fn start(world: Arc<World>, script: HashMap<String, Vec<Outcome>>, default: Vec<Outcome>) -> Endpoint {
    let listener = TcpListener::bind("127.0.0.1:0").await.expect("bind endpoint");
    let url = format!("http://{}", listener.local_addr().unwrap());
    let seen = Arc::new(AtomicUsize::new(0));
    let attempts: Arc<Mutex<HashMap<String, usize>>> = Arc::new(Mutex::new(HashMap::new()));
    let script = Arc::new(script);
    let default = Arc::new(default);
    let base: Arc<str> = Arc::from(url.as_str());
    let task = tokio::spawn({
        let seen = Arc::clone(&seen);
        async move {
            loop {
                let Ok((stream, _)) = listener.accept().await else { continue };
                let world = Arc::clone(&world);
                let seen = Arc::clone(&seen);
                let attempts = Arc::clone(&attempts);
                let script = Arc::clone(&script);
                let default = Arc::clone(&default);
                let base = Arc::clone(&base);
                tokio::spawn(async move {
                    let handle = move |req: Request<hyper::body::Incoming>| {
                        let world = Arc::clone(&world);
                        let seen = Arc::clone(&seen);
                        let attempts = Arc::clone(&attempts);
                        let script = Arc::clone(&script);
                        let default = Arc::clone(&default);
                        let base = Arc::clone(&base);
                        async move {
                            let content_type = req
                                .headers()
                                .get("content-type")
                                .and_then(|v| v.to_str().ok())
                                .unwrap_or("")
                                .to_string();
                            let method = req.method().to_string();
                            // the endpoint this request was addressed to, spelled the way scenarios configure it
                            let path = req.uri().path().to_string();
                            let ep = if path == "/" { base.to_string() } else { format!("{}{}", base, path) };
                            let body = req.collect().await.map(|b| b.to_bytes()).unwrap_or_default();
                            let parsed: serde_json::Value = serde_json::from_slice(&body).unwrap_or(json!({}));
                            let msg = parsed.get("message").cloned().unwrap_or(json!({}));
                            let data_b64 = msg.get("data").and_then(|d| d.as_str()).unwrap_or("");
                            let data = base64::engine::general_purpose::STANDARD.decode(data_b64).ok();
                            let attrs: HashMap<String, String> = msg
                                .get("attributes")
                                .and_then(|a| a.as_object())
                                .map(|o| o.iter().map(|(k, v)| (k.clone(), v.as_str().unwrap_or("").to_string())).collect())
                                .unwrap_or_default();
                            let mid = msg.get("messageId").and_then(|m| m.as_str()).unwrap_or("").to_string();
                            let mid2 = msg.get("message_id").and_then(|m| m.as_str()).unwrap_or("").to_string();
                            let key = data.as_ref().map(|d| String::from_utf8_lossy(d).to_string()).unwrap_or_default();
                            let k = {
                                let mut a = attempts.lock().unwrap();
                                let e = a.entry(format!("{}|{}", parsed.get("subscription").and_then(|s| s.as_str()).unwrap_or(""), mid)).or_insert(0);
                                *e += 1;
                                *e
                            };
                            let plan = script.get(&key).unwrap_or(&default);
                            let outcome = plan.get(k - 1).or(plan.last()).cloned().unwrap_or(Outcome::Status(200));
                            let (code, delay, close) = match &outcome {
                                Outcome::Status(c) => (*c as i64, 0, false),
                                Outcome::Delayed { delay, status } => (*status as i64, *delay, false),
                                // "hold": never answer (the exchange stays open); anything else: drop the connection
                                Outcome::Named(n) if n == "hold" => (-2, 0, false),
                                Outcome::Named(_) => (-1, 0, true),
                            };
                            world.ev(
                                "http",
                                json!({
                                    "sub": parsed.get("subscription").and_then(|s| s.as_str()).unwrap_or(""),
                                    "m": split_id(&mid), "raw": mid, "same_id": mid == mid2, "b64ok": data.is_some(),
                                    "data": data.as_ref().map(|d| digest(d)).unwrap_or_default(),
                                    // a delayed answer is pending until it is sent (`httpans`)
                                    "attrs": attrs_list(&attrs), "attempt": k,
                                    "code": if delay > 0 { -(100 + k as i64) } else { code }, "delay": delay,
                                    "method": method, "json": content_type.starts_with("application/json"), "ep": ep,
                                }),
                            );
                            seen.fetch_add(1, Ordering::SeqCst);
                            if delay > 0 {
                                tokio::time::sleep(Duration::from_millis(delay)).await;
                                world.ev(
                                    "httpans",
                                    json!({
                                        "sub": parsed.get("subscription").and_then(|s| s.as_str()).unwrap_or(""),
                                        "m": split_id(&mid), "raw": mid, "attempt": k, "code": code,
                                    }),
                                );
                            }
                            if code == -2 {
                                std::future::pending::<()>().await;
                            }
                            if close {
                                // an error from the service makes hyper drop the connection
                                return Err::<Response<Empty<Bytes>>, std::io::Error>(std::io::Error::new(std::io::ErrorKind::Other, "close"));
                            }
                            let mut resp = Response::new(Empty::<Bytes>::default());
                            *resp.status_mut() = StatusCode::from_u16(code as u16).unwrap_or(StatusCode::OK);
                            Ok(resp)
                        }
                    };
                    let _ = http1::Builder::new().serve_connection(TokioIo::new(stream), service_fn(handle)).await;
                    let _: Option<Infallible> = None;
                });
            }
        }
    });
    Endpoint { url, seen, task }
}

/// A URL on which nothing listens (connection refused).
pub async fn dead_url() -> String {
    let listener = TcpListener::bind("127.0.0.1:0").await.expect("bind");
    let url = format!("http://{}", listener.local_addr().unwrap());
    drop(listener);
    url
}
