//! Executes scenarios (TLC-generated or hand-written) step by step on a fresh instance.
use crate::ops::{exec, stream_open, AckRef, CallSpec, StreamHandle, HANG_LIMIT};
use crate::world::{write_event, Out, World};
use serde::Deserialize;
use serde_json::{json, Value};
use std::collections::HashMap;
use std::sync::Arc;
use std::time::Duration;

#[derive(Debug, Clone, Deserialize)]
pub struct Scenario {
    pub id: String,
    #[serde(default)]
    pub cap: usize,
    #[serde(default)]
    pub seed: u64,
    #[serde(default)]
    pub phase: Option<u64>,
    #[serde(default)]
    pub meta: Value,
    pub steps: Vec<Step>,
}

#[derive(Debug, Clone, Deserialize)]
#[serde(tag = "do", rename_all = "lowercase")]
pub enum Step {
    Call { c: usize, call: CallSpec },
    Start { h: String, c: usize, call: CallSpec },
    Abort { h: String },
    Wait { h: String },
    Waitall {},
    Sopen { h: String, c: usize, sub: String, #[serde(default)] max: i64, #[serde(default)] maxb: i64 },
    Ssend {
        h: String,
        #[serde(default)] acks: Vec<AckRef>,
        #[serde(default)] mods: Vec<(AckRef, i32)>,
        /// Raw overrides for malformed control messages.
        #[serde(default)] rsub: Option<String>,
        #[serde(default)] rmax: Option<i64>,
        #[serde(default)] rmaxb: Option<i64>,
        #[serde(default)] rsecs: Option<Vec<i32>>,
    },
    Sclose { h: String },
    Sabandon { h: String },
    Swait { h: String },
    Advance { ms: u64 },
    Jump { ms: u64 },
    Yield { #[serde(default)] n: usize },
    Settle {},
    Drain { c: usize },
    /// Follows next_page_token from the first page until it is empty.
    Walk { c: usize, kind: String, arg: String, size: i32 },
    Mark { name: String },
    /// A library-level call (managers / handles, no gRPC) polled by hand `polls` times with
    /// `yields` scheduler turns after each poll, and dropped if it has not completed by then:
    /// places a cancellation at an exact suspension point of the server-side handling.
    Polldrop { c: usize, call: CallSpec, polls: usize, #[serde(default)] yields: usize },
    /// A library-level call polled once and kept alive (its request sits in an actor mailbox
    /// or waits for a permit) until `release`.
    Hold { h: String, c: usize, call: CallSpec },
    /// Drives the held calls to completion.
    Release {},
    /// Grants `turns` passes at a schedule point of the server ("s.turn", "t.turn",
    /// "s.del.remove"); a negative number opens the point.
    Gate { name: String, turns: i64 },
    /// Calls a public name parser on `s` and records what it returned and what it echoes.
    Parse { #[serde(rename = "fn")] func: String, s: String },
    /// Starts the scripted HTTP endpoint; `$EP` in later push configs is replaced by its URL and
    /// `$DEAD` by a URL on which nothing listens.
    Endpoint { #[serde(default)] script: HashMap<String, Vec<crate::push::Outcome>>, #[serde(default)] default: Vec<crate::push::Outcome> },
    /// Waits (real time) until the endpoint has received `n` requests, at most `ms`.
    Waithttp { n: usize, ms: u64 },
    /// Freezes / unfreezes the clock of a real-clock scenario (used to jump across an ack deadline
    /// while the endpoint holds every in-flight exchange).
    Pause {},
    Resume {},
    /// Records a `quiet` event if the server stays completely idle for a virtual millisecond.
    Quiet {},
}

/// Emits `quiet` when nothing was recorded while the paused clock advanced by one millisecond:
/// the clock only advances when no task is runnable, so the state after the last recorded
/// event is a state of rest.
pub async fn quiet(world: &Arc<World>) {
    for _ in 0..5 {
        let before = world.rec.seq();
        tokio::time::sleep(Duration::from_millis(1)).await;
        if world.rec.seq() == before {
            world.ev("quiet", json!({}));
            return;
        }
    }
}

pub async fn settle() {
    // Under the paused clock this returns when no other task is runnable.
    tokio::time::sleep(Duration::from_millis(1)).await;
}

pub async fn run_scenario(scenario: &Scenario, out: Option<Out>) -> Vec<Value> {
    let header = json!({
        "k": "reset", "i": -1, "t": 0, "run": scenario.id, "cap": if scenario.cap == 0 { 16 } else { scenario.cap },
        "seed": scenario.seed, "meta": scenario.meta,
    });
    if let Some(out) = &out {
        write_event(out, header.clone());
    }
    let streaming = out.is_some();
    let light = scenario.meta.get("light").and_then(|v| v.as_bool()).unwrap_or(false);
    deltio::verif::set_local_light(light);
    let gate = Arc::new(crate::gate::Gate::new());
    deltio::verif::install_local_controller(Some(gate.clone()));
    let world = World::start(scenario.cap, scenario.phase, out).await;
    if scenario.meta.get("inputs").and_then(|v| v.as_bool()).unwrap_or(false) {
        world.inputs.store(true, std::sync::atomic::Ordering::SeqCst);
    }
    let mut calls: HashMap<String, (usize, tokio::task::JoinHandle<()>)> = HashMap::new();
    let mut streams: HashMap<String, StreamHandle> = HashMap::new();
    let mut held: Vec<crate::libcall::Held> = Vec::new();
    let mut endpoint: Option<crate::push::Endpoint> = None;
    let mut dead = String::new();
    let real = scenario.meta.get("clock").and_then(|c| c.as_str()) == Some("real");
    let push_task = if real {
        let ms = scenario.meta.get("push_interval_ms").and_then(|v| v.as_u64()).unwrap_or(20);
        let push_loop = world.app.push_loop(Duration::from_millis(ms));
        Some(tokio::spawn(push_loop.run()))
    } else {
        None
    };

    for step in &scenario.steps {
        match step.clone() {
            Step::Call { c, call } => {
                let call = match call {
                    CallSpec::CreateSub { name, topic, ack, push: Some(p) } => {
                        let ep = endpoint.as_ref().map(|e| e.url.clone()).unwrap_or_default();
                        CallSpec::CreateSub { name, topic, ack, push: Some(p.replace("$EP", &ep).replace("$DEAD", &dead)) }
                    }
                    other => other,
                };
                exec(Arc::clone(&world), c, call).await;
            }
            Step::Endpoint { script, default } => {
                dead = crate::push::dead_url().await;
                endpoint = Some(crate::push::start(Arc::clone(&world), script, default).await);
            }
            Step::Waithttp { n, ms } => {
                let deadline = tokio::time::Instant::now() + Duration::from_millis(ms);
                while let Some(ep) = &endpoint {
                    if ep.seen.load(std::sync::atomic::Ordering::SeqCst) >= n || tokio::time::Instant::now() >= deadline {
                        break;
                    }
                    tokio::time::sleep(Duration::from_millis(2)).await;
                }
            }
            Step::Walk { c, kind, arg, size } => {
                let mut token = String::new();
                for _ in 0..64 {
                    let call = match kind.as_str() {
                        "topics" => CallSpec::ListTopics { project: arg.clone(), size, token: token.clone() },
                        "subs" => CallSpec::ListSubs { project: arg.clone(), size, token: token.clone() },
                        _ => CallSpec::ListTopicSubs { topic: arg.clone(), size, token: token.clone() },
                    };
                    let next = match exec(Arc::clone(&world), c, call).await {
                        Some((code, body)) if code == "OK" => {
                            body.get("next").and_then(|v| v.as_str()).unwrap_or("").to_string()
                        }
                        _ => String::new(),
                    };
                    if next.is_empty() {
                        break;
                    }
                    token = next;
                }
            }
            Step::Start { h, c, call } => {
                let world2 = Arc::clone(&world);
                let handle = tokio::spawn(async move {
                    exec(world2, c, call).await;
                });
                calls.insert(h, (c, handle));
            }
            Step::Abort { h } => {
                if let Some((c, handle)) = calls.remove(&h) {
                    if !handle.is_finished() {
                        world.ev("cancel", json!({"c": c}));
                    }
                    handle.abort();
                    let _ = handle.await;
                }
            }
            Step::Wait { h } => {
                if let Some((_, handle)) = calls.remove(&h) {
                    let _ = handle.await;
                }
            }
            Step::Waitall {} => {
                for (_, (_, handle)) in calls.drain() {
                    let _ = handle.await;
                }
            }
            Step::Sopen { h, c, sub, max, maxb } => {
                let handle = stream_open(Arc::clone(&world), c, sub, max, maxb).await;
                streams.insert(h, handle);
            }
            Step::Ssend { h, acks, mods, rsub, rmax, rmaxb, rsecs } => {
                if let Some(s) = streams.get(&h) {
                    let raw = if rsub.is_some() || rmax.is_some() || rmaxb.is_some() || rsecs.is_some() {
                        Some((rsub.unwrap_or_default(), rmax.unwrap_or(0), rmaxb.unwrap_or(0), rsecs))
                    } else {
                        None
                    };
                    s.send(&world, &acks, &mods, raw);
                }
            }
            Step::Sclose { h } => {
                if let Some(s) = streams.get_mut(&h) {
                    s.close(&world);
                }
            }
            Step::Sabandon { h } => {
                if let Some(mut s) = streams.remove(&h) {
                    s.abandon(&world);
                    let _ = (&mut s.reader).await;
                }
            }
            Step::Swait { h } => {
                if let Some(mut s) = streams.remove(&h) {
                    if tokio::time::timeout(HANG_LIMIT, &mut s.reader).await.is_err() {
                        world.ev("hang", json!({"c": s.c, "stream": true}));
                        s.reader.abort();
                    }
                }
            }
            Step::Advance { ms } => tokio::time::sleep(Duration::from_millis(ms)).await,
            Step::Jump { ms } => tokio::time::advance(Duration::from_millis(ms)).await,
            Step::Yield { n } => {
                for _ in 0..n.max(1) {
                    tokio::task::yield_now().await;
                }
            }
            Step::Settle {} => settle().await,
            Step::Drain { c } => drain(&world, c).await,
            Step::Mark { name } => world.ev("mark", json!({"name": name})),
            Step::Polldrop { c, call, polls, yields } => crate::libcall::poll_drop(&world, c, call, polls, yields).await,
            Step::Hold { h: _, c, call } => {
                if let Some(hd) = crate::libcall::hold(&world, c, call) {
                    held.push(hd);
                }
            }
            Step::Quiet {} => quiet(&world).await,
            Step::Pause {} => tokio::time::pause(),
            Step::Resume {} => tokio::time::resume(),
            Step::Parse { func, s } => world.ev("parse", crate::libcall::parse_event(&func, &s)),
            Step::Gate { name, turns } => {
                world.ev("mark", json!({"name": format!("gate {} {}", name, turns)}));
                gate.set(&name, if turns < 0 { None } else { Some(turns as usize) });
            }
            Step::Release {} => {
                for hd in held.drain(..) {
                    crate::libcall::release(&world, hd).await;
                }
            }
        }
    }

    gate.set("s.turn", None);
    gate.set("t.turn", None);
    gate.set("s.del.remove", None);
    for hd in held.drain(..) {
        crate::libcall::release(&world, hd).await;
    }
    // Calls and streams still open at the end: give them the hang limit.
    for (_, (_, handle)) in calls.drain() {
        let _ = handle.await;
    }
    for (_, mut s) in streams.drain() {
        world.ev("sleft", json!({"c": s.c}));
        s.abandon(&world);
    }
    if let Some(t) = push_task {
        t.abort();
    }
    if let Some(ep) = endpoint {
        ep.task.abort();
    }
    world.ev("end", json!({}));
    let mut events = Vec::new();
    if !streaming {
        events.push(header);
        events.extend(world.take_events());
    }
    deltio::verif::install_local(None);
    deltio::verif::install_local_controller(None);
    deltio::verif::set_local_light(false);
    events
}

/// Pulls and acknowledges everything on every subscription the run created, crossing all
/// deadlines, until two consecutive passes find nothing.
pub async fn drain(world: &Arc<World>, c: usize) {
    world.ev("mark", json!({"name": "drain"}));
    let mut quiet_passes = 0;
    for _round in 0..8 {
        let names = {
            let d = world.deliveries.lock().unwrap();
            let mut n = d.keys().cloned().collect::<Vec<_>>();
            n.sort();
            n
        };
        let mut got_any = false;
        for name in names {
            loop {
                let before = world.deliveries.lock().unwrap().get(&name).map(|l| l.len()).unwrap_or(0);
                exec(Arc::clone(world), c, CallSpec::Pull { sub: name.clone(), max: 1000, ri: true }).await;
                let after = world.deliveries.lock().unwrap().get(&name).map(|l| l.len()).unwrap_or(0);
                if after == before {
                    break;
                }
                got_any = true;
                let acks = (before + 1..=after).map(|d| AckRef::Delivery { d }).collect::<Vec<_>>();
                exec(Arc::clone(world), c, CallSpec::Ack { sub: name.clone(), acks }).await;
            }
        }
        if got_any {
            quiet_passes = 0;
        } else {
            quiet_passes += 1;
            if quiet_passes >= 2 {
                break;
            }
        }
        // longer than any ack deadline (and any extension, capped at 600 s) in this history
        let longest = world.max_ack_secs.load(std::sync::atomic::Ordering::SeqCst).max(600);
        tokio::time::sleep(Duration::from_secs(longest + 1)).await;
    }
    world.ev("mark", json!({"name": "drained"}));
}
