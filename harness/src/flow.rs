//! Thread-per-process scheduler for `FlowControl` (C19): every process of a TLC behaviour of
//! FlowControl.tla (waiters calling `wait_for_available_space`, mutators calling `inc`/`dec`)
//! runs on its own OS thread; the `sync_point` hooks in flow_control.rs stop a thread before each
//! atomic access, and the scheduler lets exactly one thread run from one point to the next, in the
//! order of the behaviour. In `free` mode there is no scheduler: the threads race.
use deltio::subscriptions::flow_control::{self, FlowControl};
use deltio::verif::{Controller, Recorder};
use serde::Deserialize;
use serde_json::{json, Value};
use std::cell::RefCell;
use std::collections::HashMap;
use std::future::Future;
use std::sync::atomic::{AtomicBool, Ordering};
use std::sync::{Arc, Condvar, Mutex};
use std::task::{Context, Poll, Wake, Waker};
use std::time::{Duration, Instant};

#[derive(Debug, Clone, Deserialize)]
pub struct MutOp {
    pub op: String,
    pub b: u64,
    pub m: u64,
}

#[derive(Debug, Clone, Deserialize)]
pub struct FlowSchedule {
    pub id: String,
    pub waiters: Vec<String>,
    pub mutators: HashMap<String, Vec<MutOp>>,
    pub max_bytes: u64,
    pub max_msgs: u64,
    pub init_bytes: u64,
    pub init_msgs: u64,
    #[serde(default)]
    pub steps: Vec<(String, String)>,
    #[serde(default)]
    pub free: bool,
    #[serde(default)]
    pub rounds: usize,
}

#[derive(Debug, Clone, PartialEq)]
enum At {
    Starting,
    Point(String),
    Parked,
    Done,
}

struct Sched {
    turn: Option<String>,
    at: HashMap<String, At>,
    arrivals: HashMap<String, u64>,
    open: bool,
}

struct Shared {
    sched: Mutex<Sched>,
    cv: Condvar,
}

thread_local! {
    static ME: RefCell<Option<String>> = const { RefCell::new(None) };
}

struct FlowController {
    shared: Arc<Shared>,
}

impl FlowController {
    /// Announces where this thread is and waits for its turn.
    fn arrive(&self, me: &str, at: At) {
        let mut s = self.shared.sched.lock().unwrap();
        s.at.insert(me.to_string(), at.clone());
        *s.arrivals.entry(me.to_string()).or_insert(0) += 1;
        self.shared.cv.notify_all();
        if at == At::Done {
            return;
        }
        while !(s.open || s.turn.as_deref() == Some(me)) {
            s = self.shared.cv.wait(s).unwrap();
        }
        if s.turn.as_deref() == Some(me) {
            s.turn = None;
        }
    }
}

impl Controller for FlowController {
    fn poll_point(&self, _name: &'static str, _id: u64, _cx: &mut Context<'_>) -> bool {
        true
    }

    fn sync_point(&self, name: &'static str, _id: u64) {
        let me = ME.with(|m| m.borrow().clone());
        if let Some(me) = me {
            let label = name.strip_prefix("fc.").unwrap_or(name).to_string();
            self.arrive(&me, At::Point(label));
        }
    }
}

struct FlagWaker(AtomicBool);
impl Wake for FlagWaker {
    fn wake(self: Arc<Self>) {
        self.0.store(true, Ordering::SeqCst);
    }
}

fn at_json(at: &At) -> Value {
    match at {
        At::Starting => json!("start"),
        At::Point(l) => json!(l),
        At::Parked => json!("parked"),
        At::Done => json!("done"),
    }
}

pub fn run(schedule: &FlowSchedule) -> Vec<Value> {
    let rec = Recorder::new(tokio::time::Instant::now());
    deltio::verif::install_global(Some(Arc::clone(&rec)));
    let header = json!({"k": "reset", "i": -1, "t": 0, "run": schedule.id, "cap": 0, "seed": 0,
        "meta": {"flow": true, "free": schedule.free, "waiters": schedule.waiters, "max_bytes": schedule.max_bytes,
                 "max_msgs": schedule.max_msgs, "init_bytes": schedule.init_bytes, "init_msgs": schedule.init_msgs,
                 "scripts": schedule.mutators.iter().map(|(k, v)| (k.clone(), json!(v.iter().map(|o| json!({"op": o.op, "b": o.b, "m": o.m})).collect::<Vec<_>>()))).collect::<serde_json::Map<_, _>>()}});
    let mut events = vec![header];
    if schedule.free {
        run_free(schedule, &rec);
    } else {
        run_forced(schedule, &rec);
    }
    deltio::verif::install_global(None);
    events.extend(rec.take().into_iter().map(crate::world::sanitize));
    events
}

fn make_fc(s: &FlowSchedule) -> Arc<FlowControl> {
    let fc = flow_control::create(s.max_bytes, s.max_msgs);
    // The initial counts are established before any process starts (no controller installed yet).
    fc.inc(s.init_bytes, s.init_msgs);
    Arc::new(fc)
}

fn run_forced(schedule: &FlowSchedule, rec: &Arc<Recorder>) {
    let fc = make_fc(schedule);
    let _ = rec.take(); // drop the events of the set-up
    let shared = Arc::new(Shared {
        sched: Mutex::new(Sched { turn: None, at: HashMap::new(), arrivals: HashMap::new(), open: false }),
        cv: Condvar::new(),
    });
    let controller: Arc<dyn Controller> = Arc::new(FlowController { shared: Arc::clone(&shared) });
    let mut names = schedule.waiters.clone();
    names.extend(schedule.mutators.keys().cloned());
    {
        let mut s = shared.sched.lock().unwrap();
        for n in &names {
            s.at.insert(n.clone(), At::Starting);
            s.arrivals.insert(n.clone(), 0);
        }
    }
    let mut handles = Vec::new();
    for w in &schedule.waiters {
        let fc = Arc::clone(&fc);
        let controller = Arc::clone(&controller);
        let shared = Arc::clone(&shared);
        let me = w.clone();
        handles.push(std::thread::spawn(move || {
            ME.with(|m| *m.borrow_mut() = Some(me.clone()));
            deltio::verif::install_local_controller(Some(controller));
            let ctl = FlowController { shared };
            let flag = Arc::new(FlagWaker(AtomicBool::new(false)));
            let waker = Waker::from(Arc::clone(&flag));
            let mut cx = Context::from_waker(&waker);
            let mut fut = Box::pin(async move { fc.wait_for_available_space().await });
            loop {
                match fut.as_mut().poll(&mut cx) {
                    Poll::Ready(()) => {
                        ctl.arrive(&me, At::Done);
                        break;
                    }
                    Poll::Pending => {
                        // parked: wait to be scheduled again (the scheduler looks at the model's
                        // behaviour, which only resumes a released waiter)
                        ctl.arrive(&me, At::Parked);
                        if ctl.shared.sched.lock().unwrap().open {
                            // the behaviour is over: one more chance, then give up
                            std::thread::sleep(Duration::from_millis(5));
                            if fut.as_mut().poll(&mut cx).is_ready() {
                                ctl.arrive(&me, At::Done);
                            }
                            break;
                        }
                    }
                }
            }
            deltio::verif::install_local_controller(None);
        }));
    }
    for (name, script) in &schedule.mutators {
        let fc = Arc::clone(&fc);
        let controller = Arc::clone(&controller);
        let shared = Arc::clone(&shared);
        let me = name.clone();
        let script = script.clone();
        handles.push(std::thread::spawn(move || {
            ME.with(|m| *m.borrow_mut() = Some(me.clone()));
            deltio::verif::install_local_controller(Some(controller));
            for op in script {
                if op.op == "inc" {
                    fc.inc(op.b, op.m);
                } else {
                    fc.dec(op.b, op.m);
                }
            }
            FlowController { shared }.arrive(&me, At::Done);
            deltio::verif::install_local_controller(None);
        }));
    }
    let wait_arrival = |name: &str, seen: u64| -> Option<At> {
        let deadline = Instant::now() + Duration::from_secs(10);
        let mut s = shared.sched.lock().unwrap();
        loop {
            if *s.arrivals.get(name).unwrap_or(&0) > seen {
                return s.at.get(name).cloned();
            }
            let now = Instant::now();
            if now >= deadline {
                return None;
            }
            let (g, _) = shared.cv.wait_timeout(s, deadline - now).unwrap();
            s = g;
        }
    };
    // every thread first reaches its first point
    for n in &names {
        if wait_arrival(n, 0).is_none() {
            rec.push("fc.diverge", json!({"p": n, "why": "did not start"}));
        }
    }
    for (p, label) in &schedule.steps {
        let (at, seen) = {
            let s = shared.sched.lock().unwrap();
            (s.at.get(p).cloned().unwrap_or(At::Starting), *s.arrivals.get(p).unwrap_or(&0))
        };
        // which hook point the model's label corresponds to
        let want = match label.as_str() {
            "c1m" | "c2m" => At::Point("lm".into()),
            "c1b" | "c2b" => At::Point("lb".into()),
            "resume" => At::Parked,
            other => At::Point(other.to_string()),
        };
        if at != want {
            rec.push("fc.diverge", json!({"p": p, "label": label, "at": at_json(&at)}));
            break;
        }
        {
            let mut s = shared.sched.lock().unwrap();
            s.turn = Some(p.clone());
            shared.cv.notify_all();
        }
        match wait_arrival(p, seen) {
            Some(next) => rec.push("fc.step", json!({"p": p, "label": label, "next": at_json(&next)})),
            None => {
                rec.push("fc.diverge", json!({"p": p, "label": label, "why": "no arrival"}));
                break;
            }
        }
    }
    // the behaviour is over: let everybody run freely, then see who is still waiting
    {
        let mut s = shared.sched.lock().unwrap();
        s.open = true;
        shared.cv.notify_all();
    }
    std::thread::sleep(Duration::from_millis(30));
    let s = shared.sched.lock().unwrap();
    let pending = schedule.waiters.iter().filter(|w| s.at.get(*w) != Some(&At::Done)).cloned().collect::<Vec<_>>();
    drop(s);
    rec.push("fc.end", json!({"pending": pending}));
    // parked waiters are abandoned with their threads (they block on the condvar forever):
    // release them by a final change that frees capacity is not possible without changing the
    // history, so the threads are detached.
    for h in handles {
        if h.is_finished() {
            let _ = h.join();
        }
    }
}

/// Free-running stress: waiters and mutators race on real threads, `rounds` times; every round
/// ends with both counts below the limits, so every waiter must resume.
fn run_free(schedule: &FlowSchedule, rec: &Arc<Recorder>) {
    let rounds = schedule.rounds.max(1);
    let mut stuck = 0usize;
    let mut completed = 0usize;
    for round in 0..rounds {
        let fc = make_fc(schedule);
        let mut waiter_handles = Vec::new();
        for _ in &schedule.waiters {
            let fc = Arc::clone(&fc);
            let done = Arc::new(AtomicBool::new(false));
            let d2 = Arc::clone(&done);
            let h = std::thread::spawn(move || {
                let flag = Arc::new(FlagWaker(AtomicBool::new(true)));
                let waker = Waker::from(Arc::clone(&flag));
                let mut cx = Context::from_waker(&waker);
                let mut fut = Box::pin(async move { fc.wait_for_available_space().await });
                let deadline = Instant::now() + Duration::from_secs(5);
                loop {
                    if flag.0.swap(false, Ordering::SeqCst) {
                        if fut.as_mut().poll(&mut cx).is_ready() {
                            d2.store(true, Ordering::SeqCst);
                            return;
                        }
                    } else if Instant::now() > deadline {
                        return;
                    } else {
                        std::thread::yield_now();
                    }
                }
            });
            waiter_handles.push((h, done));
        }
        let mut mut_handles = Vec::new();
        for script in schedule.mutators.values() {
            let fc = Arc::clone(&fc);
            let script = script.clone();
            mut_handles.push(std::thread::spawn(move || {
                for op in script {
                    if op.op == "inc" {
                        fc.inc(op.b, op.m);
                    } else {
                        fc.dec(op.b, op.m);
                    }
                }
            }));
        }
        for h in mut_handles {
            let _ = h.join();
        }
        for (h, done) in waiter_handles {
            let _ = h.join();
            if done.load(Ordering::SeqCst) {
                completed += 1;
            } else {
                stuck += 1;
                rec.push("fc.stuck", json!({"round": round}));
            }
        }
    }
    let _ = rec.take();
    rec.push("fc.free", json!({"rounds": rounds, "completed": completed, "stuck": stuck}));
}
