//! Executes operation sequences of NotifyModel.tla on a real `tokio::sync::Notify`, polling the
//! `Notified` futures by hand, and records what every poll returned.
use serde::Deserialize;
use serde_json::{json, Value};
use std::collections::HashMap;
use std::future::Future;
use std::pin::Pin;
use std::task::{Context, Poll};
use tokio::sync::futures::Notified;
use tokio::sync::Notify;

#[derive(Debug, Clone, Deserialize)]
pub struct Op {
    pub op: String,
    pub f: String,
}

pub fn run(id: usize, ops: &[Op]) -> Vec<Value> {
    // one Notify per sequence, leaked so that its futures can be stored
    let notify: &'static Notify = Box::leak(Box::new(Notify::new()));
    let mut futs: HashMap<String, Pin<Box<Notified<'static>>>> = HashMap::new();
    let waker = futures::task::noop_waker();
    let mut cx = Context::from_waker(&waker);
    let mut events = vec![json!({"k": "reset", "i": -1, "t": 0, "run": format!("n{}", id)})];
    for (i, op) in ops.iter().enumerate() {
        let mut r = "-".to_string();
        match op.op.as_str() {
            "create" => {
                futs.insert(op.f.clone(), Box::pin(notify.notified()));
            }
            "poll" => {
                if let Some(f) = futs.get_mut(&op.f) {
                    r = match f.as_mut().poll(&mut cx) {
                        Poll::Ready(()) => "ready".to_string(),
                        Poll::Pending => "pending".to_string(),
                    };
                }
            }
            "drop" => {
                futs.remove(&op.f);
            }
            "one" => notify.notify_one(),
            "all" => notify.notify_waiters(),
            _ => {}
        }
        events.push(json!({"k": "nt.step", "i": i, "t": 0, "op": op.op, "f": op.f, "r": r}));
    }
    drop(futs);
    events
}
