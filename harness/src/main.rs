//! dvh — deltio verification harness.
//!
//! The harness executes and records; it contains no expected values. Every recorded
//! history is judged by TLC against the TLA+ specification in /verif/spec.
mod explore;
mod ops;
mod replay;
mod world;

use serde_json::Value;
use std::io::{BufRead, Write};
use std::sync::atomic::{AtomicUsize, Ordering};
use std::sync::{Arc, Mutex};

fn arg_value(args: &[String], name: &str) -> Option<String> {
    args.iter().position(|a| a == name).and_then(|i| args.get(i + 1).cloned())
}

/// Runs `f` on a fresh current-thread runtime with a paused clock and a seeded RNG.
pub fn run_on_runtime<F, Fut>(seed: u64, f: F) -> Result<Vec<Value>, String>
where
    F: FnOnce() -> Fut + std::panic::UnwindSafe,
    Fut: std::future::Future<Output = Vec<Value>>,
{
    let result = std::panic::catch_unwind(move || {
        let mut bytes = [0u8; 32];
        bytes[..8].copy_from_slice(&seed.to_le_bytes());
        let runtime = tokio::runtime::Builder::new_current_thread()
            .enable_all()
            .start_paused(true)
            .rng_seed(tokio::runtime::RngSeed::from_bytes(&bytes))
            .build()
            .expect("runtime");
        let events = runtime.block_on(f());
        drop(runtime);
        events
    });
    deltio::verif::install_local(None);
    deltio::verif::install_local_controller(None);
    result.map_err(|e| {
        e.downcast_ref::<String>()
            .cloned()
            .or_else(|| e.downcast_ref::<&str>().map(|s| s.to_string()))
            .unwrap_or_else(|| "panic".to_string())
    })
}

/// Runs jobs `0..n` on `threads` worker threads; results are returned in job order.
pub fn parallel<F>(n: usize, threads: usize, job: F) -> Vec<Vec<Value>>
where
    F: Fn(usize) -> Vec<Value> + Send + Sync + 'static,
{
    let next = Arc::new(AtomicUsize::new(0));
    let results: Arc<Mutex<Vec<Option<Vec<Value>>>>> = Arc::new(Mutex::new(vec![None; n]));
    let job = Arc::new(job);
    let mut handles = Vec::new();
    for _ in 0..threads.max(1).min(n.max(1)) {
        let next = Arc::clone(&next);
        let results = Arc::clone(&results);
        let job = Arc::clone(&job);
        handles.push(
            std::thread::Builder::new()
                .stack_size(16 << 20)
                .spawn(move || loop {
                    let i = next.fetch_add(1, Ordering::SeqCst);
                    if i >= n {
                        break;
                    }
                    let out = job(i);
                    results.lock().unwrap()[i] = Some(out);
                })
                .unwrap(),
        );
    }
    for h in handles {
        let _ = h.join();
    }
    let mut results = results.lock().unwrap();
    results.iter_mut().map(|r| r.take().unwrap_or_default()).collect()
}

/// Writes histories round-robin into `chunks` ndjson files `<prefix>.<k>.ndjson`.
pub fn write_chunks(prefix: &str, chunks: usize, histories: Vec<Vec<Value>>) {
    let chunks = chunks.max(1);
    let mut files = (0..chunks)
        .map(|k| std::io::BufWriter::new(std::fs::File::create(format!("{}.{}.ndjson", prefix, k)).expect("create output")))
        .collect::<Vec<_>>();
    for (i, history) in histories.into_iter().enumerate() {
        let file = &mut files[i % chunks];
        for event in history {
            serde_json::to_writer(&mut *file, &event).unwrap();
            file.write_all(b"\n").unwrap();
        }
    }
    for mut f in files {
        f.flush().unwrap();
    }
}

fn install_panic_hook() {
    std::panic::set_hook(Box::new(|info| {
        let msg = info.to_string();
        deltio::verif::emit("panic", |_| serde_json::json!({"msg": msg.chars().take(300).collect::<String>()}));
    }));
}

fn main() {
    let args = std::env::args().collect::<Vec<_>>();
    if args.len() < 2 {
        eprintln!("usage: dvh replay <scenarios.ndjson> --out <prefix> [--chunks K] [--threads N]\n       dvh explore --profile P --seeds A..B --out <prefix> [--chunks K] [--threads N]");
        std::process::exit(2);
    }
    install_panic_hook();
    let threads = arg_value(&args, "--threads").and_then(|v| v.parse().ok()).unwrap_or(12usize);
    let chunks = arg_value(&args, "--chunks").and_then(|v| v.parse().ok()).unwrap_or(1usize);
    let out = arg_value(&args, "--out").unwrap_or_else(|| "trace".to_string());
    match args[1].as_str() {
        "replay" => {
            let path = args.get(2).expect("scenario file");
            let file = std::fs::File::open(path).expect("open scenario file");
            let mut scenarios = Vec::new();
            for line in std::io::BufReader::new(file).lines() {
                let line = line.unwrap();
                if line.trim().is_empty() {
                    continue;
                }
                match serde_json::from_str::<replay::Scenario>(&line) {
                    Ok(s) => scenarios.push(s),
                    Err(e) => {
                        eprintln!("bad scenario: {}: {}", e, &line[..line.len().min(200)]);
                        std::process::exit(2);
                    }
                }
            }
            let scenarios = Arc::new(scenarios);
            let n = scenarios.len();
            let histories = parallel(n, threads, {
                let scenarios = Arc::clone(&scenarios);
                move |i| {
                    let scenario = scenarios[i].clone();
                    let id = scenario.id.clone();
                    match run_on_runtime(scenario.seed, move || async move { replay::run_scenario(&scenario).await }) {
                        Ok(events) => events,
                        Err(msg) => vec![
                            serde_json::json!({"k": "reset", "i": -1, "t": 0, "run": id, "cap": 0, "seed": 0, "meta": {}}),
                            serde_json::json!({"k": "panic", "i": 0, "t": 0, "msg": msg, "harness": true}),
                        ],
                    }
                }
            });
            write_chunks(&out, chunks, histories);
            eprintln!("dvh: replayed {} scenarios", n);
        }
        "explore" => {
            let profile = arg_value(&args, "--profile").unwrap_or_else(|| "mixed".to_string());
            let seeds = arg_value(&args, "--seeds").unwrap_or_else(|| "0..16".to_string());
            let (a, b) = seeds.split_once("..").expect("--seeds A..B");
            let (a, b): (u64, u64) = (a.parse().unwrap(), b.parse().unwrap());
            let n = (b - a) as usize;
            let histories = parallel(n, threads, move |i| {
                let seed = a + i as u64;
                let profile = profile.clone();
                let p2 = profile.clone();
                match run_on_runtime(seed, move || async move { explore::run(seed, &profile).await }) {
                    Ok(events) => events,
                    Err(msg) => vec![
                        serde_json::json!({"k": "reset", "i": -1, "t": 0, "run": format!("{}-{}", p2, seed), "cap": 0, "seed": seed, "meta": {}}),
                        serde_json::json!({"k": "panic", "i": 0, "t": 0, "msg": msg, "harness": true}),
                    ],
                }
            });
            write_chunks(&out, chunks, histories);
            eprintln!("dvh: explored {} seeds", n);
        }
        other => {
            eprintln!("unknown mode {}", other);
            std::process::exit(2);
        }
    }
}
