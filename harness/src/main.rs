//! dvh — deltio verification harness.
//!
//! The harness executes and records; it contains no expected values. Every recorded
//! history is judged by TLC against the TLA+ specification in /verif/spec.
//!
//! `dvh replay` / `dvh explore` are parent processes: the jobs run in a child process
//! (`dvh child`) whose worker threads stream their events to disk, so that an abort of the
//! code under test (undefined behaviour, non-unwinding panic, stack overflow) is data: the
//! parent finds the histories that did not finish, re-runs them one per process, and marks
//! the ones that abort again with an `abort` event.
mod explore;
mod flow;
mod gate;
mod libcall;
mod mt;
mod notify;
mod ops;
mod push;
mod replay;
mod world;

use serde::{Deserialize, Serialize};
use serde_json::{json, Value};
use std::io::{BufRead, Write};
use std::sync::atomic::{AtomicUsize, Ordering};
use std::sync::{Arc, Mutex};

#[derive(Debug, Clone, Serialize, Deserialize)]
#[serde(untagged)]
enum Job {
    Mt { mt: ExploreJob },
    Explore { explore: ExploreJob },
    Scenario(Box<serde_json::Value>),
}

#[derive(Debug, Clone, Serialize, Deserialize)]
struct ExploreJob {
    profile: String,
    seed: u64,
}

impl Job {
    fn id(&self) -> String {
        match self {
            Job::Explore { explore } => format!("{}-{}", explore.profile, explore.seed),
            Job::Mt { mt } => format!("mt-{}-{}", mt.profile, mt.seed),
            Job::Scenario(v) => v.get("id").and_then(|i| i.as_str()).unwrap_or("?").to_string(),
        }
    }
}

fn arg_value(args: &[String], name: &str) -> Option<String> {
    args.iter().position(|a| a == name).and_then(|i| args.get(i + 1).cloned())
}

/// Runs `f` on a fresh current-thread runtime with a paused clock and a seeded RNG.
pub fn run_on_runtime<F, Fut>(seed: u64, paused: bool, f: F) -> Result<Vec<Value>, String>
where
    F: FnOnce() -> Fut + std::panic::UnwindSafe,
    Fut: std::future::Future<Output = Vec<Value>>,
{
    let result = std::panic::catch_unwind(move || {
        let mut bytes = [0u8; 32];
        bytes[..8].copy_from_slice(&seed.to_le_bytes());
        let runtime = tokio::runtime::Builder::new_current_thread()
            .enable_all()
            .start_paused(paused)
            .rng_seed(tokio::runtime::RngSeed::from_bytes(&bytes))
            .build()
            .expect("runtime");
        let events = runtime.block_on(f());
        drop(runtime);
        events
    });
    deltio::verif::install_local(None);
    deltio::verif::install_local_controller(None);
    result.map_err(|e| {
        e.downcast_ref::<String>()
            .cloned()
            .or_else(|| e.downcast_ref::<&str>().map(|s| s.to_string()))
            .unwrap_or_else(|| "panic".to_string())
    })
}

fn install_panic_hook() {
    std::panic::set_hook(Box::new(|info| {
        let msg = info.to_string();
        deltio::verif::emit("panic", |_| json!({"msg": msg.chars().take(300).collect::<String>()}));
    }));
}

fn read_jobs(path: &str) -> Vec<Job> {
    let file = std::fs::File::open(path).expect("open jobs file");
    let mut jobs = Vec::new();
    for line in std::io::BufReader::new(file).lines() {
        let line = line.unwrap();
        if line.trim().is_empty() {
            continue;
        }
        match serde_json::from_str::<Job>(&line) {
            Ok(j) => jobs.push(j),
            Err(e) => {
                eprintln!("bad job: {}: {}", e, &line[..line.len().min(200)]);
                std::process::exit(2);
            }
        }
    }
    jobs
}

/// Child mode: runs the jobs on `threads` worker threads, thread t streaming to `<out>.t<t>.part`.
fn child(jobs_path: &str, out: &str, threads: usize) {
    install_panic_hook();
    let jobs = Arc::new(read_jobs(jobs_path));
    let next = Arc::new(AtomicUsize::new(0));
    let mut handles = Vec::new();
    for t in 0..threads.max(1).min(jobs.len().max(1)) {
        let jobs = Arc::clone(&jobs);
        let next = Arc::clone(&next);
        let path = format!("{}.t{}.part", out, t);
        handles.push(
            std::thread::Builder::new()
                .stack_size(32 << 20)
                .spawn(move || {
                    let file = std::fs::OpenOptions::new().create(true).append(true).open(&path).expect("open part file");
                    let sink: world::Out = Arc::new(Mutex::new(file));
                    loop {
                        let i = next.fetch_add(1, Ordering::SeqCst);
                        if i >= jobs.len() {
                            break;
                        }
                        let job = jobs[i].clone();
                        let id = job.id();
                        let sink2 = Arc::clone(&sink);
                        let result = match job {
                            Job::Mt { mt } => {
                                // one multi-thread runtime per history; the recorder is process-wide,
                                // so these jobs run one at a time (the parent uses a single worker)
                                let profile = mt.profile.clone();
                                let seed = mt.seed;
                                let r = std::panic::catch_unwind(move || {
                                    let runtime = tokio::runtime::Builder::new_multi_thread()
                                        .worker_threads(4)
                                        .enable_all()
                                        .build()
                                        .expect("runtime");
                                    let events = runtime.block_on(mt::run(seed, &profile, Some(sink2)));
                                    runtime.shutdown_timeout(std::time::Duration::from_millis(200));
                                    events
                                });
                                deltio::verif::install_global(None);
                                r.map_err(|_| "panic".to_string())
                            }
                            Job::Explore { explore } => {
                                let profile = explore.profile.clone();
                                let seed = explore.seed;
                                run_on_runtime(seed, true, move || async move { explore::run(seed, &profile, Some(sink2)).await })
                            }
                            Job::Scenario(v) => match serde_json::from_value::<replay::Scenario>(*v) {
                                Ok(scenario) => {
                                    let seed = scenario.seed;
                                    let paused = scenario.meta.get("clock").and_then(|c| c.as_str()) != Some("real");
                                    run_on_runtime(seed, paused, move || async move { replay::run_scenario(&scenario, Some(sink2)).await })
                                }
                                Err(e) => Err(format!("bad scenario: {}", e)),
                            },
                        };
                        if let Err(msg) = result {
                            // An unwinding panic of the harness task itself: close the history.
                            world::write_event(&sink, json!({"k": "panic", "i": -2, "t": 0, "msg": msg, "harness": true, "run": id}));
                            world::write_event(&sink, json!({"k": "end", "i": -2, "t": 0}));
                        }
                    }
                })
                .unwrap(),
        );
    }
    for h in handles {
        let _ = h.join();
    }
}

/// Splits part files into histories: (run id, lines, complete?).
fn read_parts(out: &str) -> Vec<(String, Vec<String>, bool)> {
    let mut histories = Vec::new();
    let mut paths = Vec::new();
    if let Some(dir) = std::path::Path::new(out).parent() {
        let stem = std::path::Path::new(out).file_name().unwrap().to_string_lossy().to_string();
        if let Ok(rd) = std::fs::read_dir(if dir.as_os_str().is_empty() { std::path::Path::new(".") } else { dir }) {
            for e in rd.flatten() {
                let name = e.file_name().to_string_lossy().to_string();
                if name.starts_with(&format!("{}.t", stem)) && name.ends_with(".part") {
                    paths.push(e.path());
                }
            }
        }
    }
    paths.sort();
    for p in paths {
        let content = std::fs::read(&p).unwrap_or_default();
        let text = String::from_utf8_lossy(&content);
        let mut cur: Option<(String, Vec<String>, bool)> = None;
        for line in text.lines() {
            // A line cut off by an abort is dropped.
            let parsed: Option<Value> = serde_json::from_str(line).ok();
            let Some(v) = parsed else { continue };
            let k = v.get("k").and_then(|k| k.as_str()).unwrap_or("");
            if k == "reset" {
                if let Some(h) = cur.take() {
                    histories.push(h);
                }
                let run = v.get("run").and_then(|r| r.as_str()).unwrap_or("?").to_string();
                cur = Some((run, vec![line.to_string()], false));
            } else if let Some(h) = cur.as_mut() {
                h.1.push(line.to_string());
                if k == "end" {
                    h.2 = true;
                }
            }
        }
        if let Some(h) = cur.take() {
            histories.push(h);
        }
        let _ = std::fs::remove_file(&p);
    }
    histories
}

fn run_child(jobs: &[Job], out: &str, threads: usize) -> bool {
    let jobs_path = format!("{}.jobs", out);
    {
        let mut f = std::io::BufWriter::new(std::fs::File::create(&jobs_path).expect("jobs file"));
        for j in jobs {
            serde_json::to_writer(&mut f, j).unwrap();
            f.write_all(b"\n").unwrap();
        }
        f.flush().unwrap();
    }
    let exe = std::env::current_exe().expect("current exe");
    let mut child = std::process::Command::new(exe)
        .args(["child", &jobs_path, "--out", out, "--threads", &threads.to_string()])
        .stderr(std::process::Stdio::null())
        .spawn()
        .expect("spawn child");
    // Watchdog: a child whose output does not grow for a long time is stuck (a blocked runtime
    // cannot even time its own calls out); it is killed and its open histories count as unfinished.
    let stall_limit = std::time::Duration::from_secs(
        std::env::var("DVH_STALL_SECS").ok().and_then(|v| v.parse().ok()).unwrap_or(150),
    );
    let mut last_size = 0u64;
    let mut last_change = std::time::Instant::now();
    let ok = loop {
        match child.try_wait() {
            Ok(Some(status)) => break status.success(),
            Ok(None) => {}
            Err(_) => break false,
        }
        std::thread::sleep(std::time::Duration::from_millis(200));
        let size = part_files(out).iter().filter_map(|p| std::fs::metadata(p).ok()).map(|m| m.len()).sum::<u64>();
        if size != last_size {
            last_size = size;
            last_change = std::time::Instant::now();
        } else if last_change.elapsed() > stall_limit {
            let _ = child.kill();
            let _ = child.wait();
            STALLED.store(true, Ordering::SeqCst);
            break false;
        }
    };
    let _ = std::fs::remove_file(&jobs_path);
    ok
}

static STALLED: std::sync::atomic::AtomicBool = std::sync::atomic::AtomicBool::new(false);

fn part_files(out: &str) -> Vec<std::path::PathBuf> {
    let mut paths = Vec::new();
    if let Some(dir) = std::path::Path::new(out).parent() {
        let stem = std::path::Path::new(out).file_name().unwrap().to_string_lossy().to_string();
        if let Ok(rd) = std::fs::read_dir(if dir.as_os_str().is_empty() { std::path::Path::new(".") } else { dir }) {
            for e in rd.flatten() {
                let name = e.file_name().to_string_lossy().to_string();
                if name.starts_with(&format!("{}.t", stem)) && name.ends_with(".part") {
                    paths.push(e.path());
                }
            }
        }
    }
    paths
}

/// Parent mode: runs all jobs with crash isolation and writes `<out>.<k>.ndjson` chunk files.
fn parent(jobs: Vec<Job>, out: &str, chunks: usize, threads: usize) {
    let mut done: Vec<(String, Vec<String>)> = Vec::new();
    let mut remaining = jobs;
    let mut aborts = 0usize;
    let ok = run_child(&remaining, out, threads);
    let mut finished = std::collections::HashSet::new();
    // The watchdog only fires when NO open history made progress for the whole limit: every open
    // history is stuck.  Such a hang is usually a rare schedule that a re-run would not hit again,
    // so it is reported as it is instead of being re-run.
    let stalled = STALLED.swap(false, Ordering::SeqCst);
    for (run, mut lines, complete) in read_parts(out) {
        if complete {
            finished.insert(run.clone());
            done.push((run, lines));
        } else if stalled {
            aborts += 1;
            lines.push(json!({"k": "stall", "i": -3, "t": 0, "run": run}).to_string());
            lines.push(json!({"k": "end", "i": -3, "t": 0}).to_string());
            finished.insert(run.clone());
            done.push((run, lines));
        }
    }
    remaining.retain(|j| !finished.contains(&j.id()));
    if !ok || !remaining.is_empty() {
        // One process per attempt, one thread: whatever history is left open when the child
        // dies is the one that killed it.
        while !remaining.is_empty() {
            let ok = run_child(&remaining, out, 1);
            let mut finished = std::collections::HashSet::new();
            for (run, mut lines, complete) in read_parts(out) {
                if !complete {
                    aborts += 1;
                    let kind = if STALLED.swap(false, Ordering::SeqCst) { "stall" } else { "abort" };
                    lines.push(json!({"k": kind, "i": -3, "t": 0, "run": run}).to_string());
                    lines.push(json!({"k": "end", "i": -3, "t": 0}).to_string());
                }
                finished.insert(run.clone());
                done.push((run, lines));
            }
            let before = remaining.len();
            remaining.retain(|j| !finished.contains(&j.id()));
            if remaining.len() == before {
                // No progress at all (the child died before starting a history).
                if ok {
                    break;
                }
                let j = remaining.remove(0);
                aborts += 1;
                done.push((
                    j.id(),
                    vec![
                        json!({"k": "reset", "i": -1, "t": 0, "run": j.id(), "cap": 0, "seed": 0, "meta": {}}).to_string(),
                        json!({"k": "abort", "i": -3, "t": 0, "run": j.id()}).to_string(),
                        json!({"k": "end", "i": -3, "t": 0}).to_string(),
                    ],
                ));
            }
        }
    }
    let chunks = chunks.max(1);
    let mut files = (0..chunks)
        .map(|k| std::io::BufWriter::new(std::fs::File::create(format!("{}.{}.ndjson", out, k)).expect("create output")))
        .collect::<Vec<_>>();
    done.sort_by(|a, b| a.0.cmp(&b.0));
    for (i, (_, lines)) in done.iter().enumerate() {
        let f = &mut files[i % chunks];
        for l in lines {
            f.write_all(l.as_bytes()).unwrap();
            f.write_all(b"\n").unwrap();
        }
    }
    for mut f in files {
        f.flush().unwrap();
    }
    eprintln!("dvh: {} histories, {} aborted", done.len(), aborts);
}

fn main() {
    let args = std::env::args().collect::<Vec<_>>();
    if args.len() < 2 {
        eprintln!("usage: dvh replay <scenarios.ndjson> --out <prefix> [--chunks K] [--threads N]\n       dvh explore --profile P --seeds A..B --out <prefix> [--chunks K] [--threads N]");
        std::process::exit(2);
    }
    let threads = arg_value(&args, "--threads").and_then(|v| v.parse().ok()).unwrap_or(12usize);
    let chunks = arg_value(&args, "--chunks").and_then(|v| v.parse().ok()).unwrap_or(1usize);
    let out = arg_value(&args, "--out").unwrap_or_else(|| "trace".to_string());
    match args[1].as_str() {
        "child" => child(args.get(2).expect("jobs file"), &out, threads),
        "replay" => {
            let jobs = read_jobs(args.get(2).expect("scenario file"));
            parent(jobs, &out, chunks, threads);
        }
        "notify" => {
            let path = args.get(2).expect("sequences file");
            let file = std::fs::File::open(path).expect("open sequences file");
            let mut f = std::io::BufWriter::new(std::fs::File::create(format!("{}.0.ndjson", out)).expect("create output"));
            let mut n = 0;
            for line in std::io::BufReader::new(file).lines() {
                let line = line.unwrap();
                if line.trim().is_empty() {
                    continue;
                }
                let ops: Vec<notify::Op> = serde_json::from_str(&line).expect("bad sequence");
                for event in notify::run(n, &ops) {
                    serde_json::to_writer(&mut f, &event).unwrap();
                    f.write_all(b"\n").unwrap();
                }
                n += 1;
            }
            f.flush().unwrap();
            eprintln!("dvh: {} notify sequences", n);
        }
        "flow" => {
            let path = args.get(2).expect("schedules file");
            let file = std::fs::File::open(path).expect("open schedules file");
            let mut f = std::io::BufWriter::new(std::fs::File::create(format!("{}.0.ndjson", out)).expect("create output"));
            let mut n = 0;
            for line in std::io::BufReader::new(file).lines() {
                let line = line.unwrap();
                if line.trim().is_empty() {
                    continue;
                }
                let schedule: flow::FlowSchedule = serde_json::from_str(&line).expect("bad flow schedule");
                for event in flow::run(&schedule) {
                    serde_json::to_writer(&mut f, &event).unwrap();
                    f.write_all(b"\n").unwrap();
                }
                n += 1;
            }
            f.flush().unwrap();
            eprintln!("dvh: {} flow schedules", n);
        }
        "mt" => {
            let profile = arg_value(&args, "--profile").unwrap_or_else(|| "pubrace".to_string());
            let seeds = arg_value(&args, "--seeds").unwrap_or_else(|| "0..16".to_string());
            let (a, b) = seeds.split_once("..").expect("--seeds A..B");
            let (a, b): (u64, u64) = (a.parse().unwrap(), b.parse().unwrap());
            let jobs = (a..b).map(|seed| Job::Mt { mt: ExploreJob { profile: profile.clone(), seed } }).collect();
            parent(jobs, &out, chunks, 1);
        }
        "explore" => {
            let profile = arg_value(&args, "--profile").unwrap_or_else(|| "mixed".to_string());
            let seeds = arg_value(&args, "--seeds").unwrap_or_else(|| "0..16".to_string());
            let (a, b) = seeds.split_once("..").expect("--seeds A..B");
            let (a, b): (u64, u64) = (a.parse().unwrap(), b.parse().unwrap());
            let jobs = (a..b)
                .map(|seed| Job::Explore { explore: ExploreJob { profile: profile.clone(), seed } })
                .collect();
            parent(jobs, &out, chunks, threads);
        }
        other => {
            eprintln!("unknown mode {}", other);
            std::process::exit(2);
        }
    }
}
