//! A schedule controller for `deltio::verif::point`: per point name, a number of passes that
//! are still allowed (or "open"). A task reaching a closed point stays pending until the
//! scenario grants passes.
use deltio::verif::Controller;
use std::collections::HashMap;
use std::sync::Mutex;
use std::task::{Context, Waker};

#[derive(Default)]
pub struct Gate {
    /// name -> remaining passes (None = open).
    state: Mutex<HashMap<&'static str, Option<usize>>>,
    wakers: Mutex<Vec<Waker>>,
}

impl Gate {
    pub fn new() -> Self {
        Self::default()
    }

    /// Grants `passes` passes at the named point (None = open it).
    pub fn set(&self, name: &str, passes: Option<usize>) {
        let name: &'static str = match name {
            "s.turn" => "s.turn",
            "t.turn" => "t.turn",
            "s.del.remove" => "s.del.remove",
            _ => return,
        };
        self.state.lock().unwrap().insert(name, passes);
        for w in self.wakers.lock().unwrap().drain(..) {
            w.wake();
        }
    }
}

impl Controller for Gate {
    fn poll_point(&self, name: &'static str, _id: u64, cx: &mut Context<'_>) -> bool {
        let mut state = self.state.lock().unwrap();
        match state.get_mut(name) {
            None | Some(None) => true,
            Some(Some(n)) if *n > 0 => {
                *n -= 1;
                true
            }
            Some(Some(_)) => {
                self.wakers.lock().unwrap().push(cx.waker().clone());
                false
            }
        }
    }
}
