//! Library-level calls: the same operations as the gRPC surface, issued on the managers and
//! handles of the running instance (`Deltio::verif_parts`), as plain futures that the harness
//! polls by hand. Used to drop a caller at an exact suspension point (C16, C03, C06).
use crate::ops::{payload, CallSpec};
use crate::world::World;
use deltio::subscriptions::{AckDeadline, AckId, DeadlineModification, SubscriptionInfo, SubscriptionName};
use deltio::topics::{TopicMessage, TopicName};
use serde_json::json;
use std::future::Future;
use std::pin::Pin;
use std::sync::Arc;
use std::task::{Context, Poll};
use std::time::Duration;

type Fut = Pin<Box<dyn Future<Output = String> + Send>>;

fn resolve(world: &World, sub: &str, acks: &[crate::ops::AckRef]) -> Vec<u64> {
    let deliveries = world.deliveries.lock().unwrap();
    let list = deliveries.get(sub);
    acks.iter()
        .map(|a| match a {
            crate::ops::AckRef::Literal { lit } => lit.parse::<u64>().unwrap_or(900_000),
            crate::ops::AckRef::Delivery { d } => list
                .and_then(|l| l.get(d.wrapping_sub(1)).and_then(|s| s.parse::<u64>().ok()))
                .unwrap_or(900_000 + *d as u64),
        })
        .collect()
}

/// Builds the library-level future for a call and the `inv` event that describes it.
fn build(world: &Arc<World>, c: usize, spec: CallSpec) -> Option<(Fut, serde_json::Value)> {
    let w = Arc::clone(world);
    match spec {
        CallSpec::Pull { sub, max, .. } => {
            let name = SubscriptionName::try_parse(&sub)?;
            let inv = json!({"c": c, "op": "Pull", "sub": sub, "max": max, "ri": true, "lib": true});
            Some((
                Box::pin(async move {
                    match w.subs.get_subscription(&name) {
                        Err(_) => "NOT_FOUND".to_string(),
                        Ok(s) => match s.pull_messages(max as u16).await {
                            Ok(m) => format!("OK:{}", m.len()),
                            Err(_) => "CLOSED".to_string(),
                        },
                    }
                }),
                inv,
            ))
        }
        CallSpec::Ack { sub, acks } => {
            let name = SubscriptionName::try_parse(&sub)?;
            let ids = resolve(world, &sub, &acks);
            let inv = json!({"c": c, "op": "Ack", "sub": sub, "acks": ids, "bad": 0, "lib": true});
            Some((
                Box::pin(async move {
                    match w.subs.get_subscription(&name) {
                        Err(_) => "NOT_FOUND".to_string(),
                        Ok(s) => match s.acknowledge_messages(ids.into_iter().map(AckId::new).collect()).await {
                            Ok(_) => "OK".to_string(),
                            Err(_) => "CLOSED".to_string(),
                        },
                    }
                }),
                inv,
            ))
        }
        CallSpec::ModAck { sub, acks, secs } => {
            let name = SubscriptionName::try_parse(&sub)?;
            let ids = resolve(world, &sub, &acks);
            let inv = json!({"c": c, "op": "ModAck", "sub": sub, "acks": ids, "bad": 0, "secs": secs, "lib": true});
            Some((
                Box::pin(async move {
                    let now = tokio::time::Instant::now();
                    let mods = ids
                        .into_iter()
                        .map(|a| {
                            if secs == 0 {
                                DeadlineModification::nack(AckId::new(a))
                            } else {
                                let d = now + Duration::from_secs(secs.clamp(0, 600) as u64);
                                DeadlineModification::new(AckId::new(a), AckDeadline::new(&d))
                            }
                        })
                        .collect();
                    match w.subs.get_subscription(&name) {
                        Err(_) => "NOT_FOUND".to_string(),
                        Ok(s) => match s.modify_ack_deadlines(mods).await {
                            Ok(_) => "OK".to_string(),
                            Err(_) => "CLOSED".to_string(),
                        },
                    }
                }),
                inv,
            ))
        }
        CallSpec::Publish { topic, msgs } => {
            let name = TopicName::try_parse(&topic)?;
            // `bulk:N` stands for N small distinguishable messages in one request
            let msgs = match msgs.as_slice() {
                [one] if one.p.starts_with("bulk:") => {
                    let n = one.p[5..].parse::<usize>().unwrap_or(1);
                    (0..n).map(|i| crate::ops::MsgSpec { p: format!("k{}", i) }).collect::<Vec<_>>()
                }
                _ => msgs,
            };
            let messages = msgs.iter().map(|m| payload(&m.p)).collect::<Vec<_>>();
            let inv = json!({"c": c, "op": "Publish", "topic": topic, "lib": true, "n": messages.len(),
                "msgs": messages.iter().map(|(d, a)| json!({"data": crate::world::digest(d), "attrs": crate::world::attrs_list(a)})).collect::<Vec<_>>()});
            Some((
                Box::pin(async move {
                    match w.topics.get_topic(&name) {
                        Err(_) => "NOT_FOUND".to_string(),
                        Ok(t) => {
                            let msgs = messages
                                .into_iter()
                                .map(|(d, a)| TopicMessage::new(d.into(), if a.is_empty() { None } else { Some(a) }))
                                .collect();
                            match t.publish_messages(msgs).await {
                                Ok(r) => format!("OK:{}", r.message_ids.len()),
                                Err(_) => "CLOSED".to_string(),
                            }
                        }
                    }
                }),
                inv,
            ))
        }
        CallSpec::CreateSub { name, topic, ack, push } => {
            let sname = SubscriptionName::try_parse(&name)?;
            let tname = TopicName::try_parse(&topic)?;
            let inv = json!({"c": c, "op": "CreateSub", "name": name, "topic": topic, "ack": ack, "push": push.clone().unwrap_or_default(), "push_http": true, "lib": true});
            Some((
                Box::pin(async move {
                    match w.topics.get_topic(&tname) {
                        Err(_) => "NOT_FOUND".to_string(),
                        Ok(t) => {
                            let push_config = push
                                .filter(|p| !p.is_empty())
                                .map(|p| deltio::subscriptions::PushConfig::new(p, None, None));
                            let info = SubscriptionInfo::new(sname, Duration::from_secs(ack.max(10) as u64), push_config);
                            match w.subs.create_subscription(info, t).await {
                                Ok(_) => "OK".to_string(),
                                Err(e) => format!("ERR:{:?}", e),
                            }
                        }
                    }
                }),
                inv,
            ))
        }
        CallSpec::DeleteSub { name } => {
            let sname = SubscriptionName::try_parse(&name)?;
            let inv = json!({"c": c, "op": "DeleteSub", "name": name, "lib": true});
            Some((
                Box::pin(async move {
                    match w.subs.get_subscription(&sname) {
                        Err(_) => "NOT_FOUND".to_string(),
                        Ok(s) => match s.delete().await {
                            Ok(_) => "OK".to_string(),
                            Err(_) => "CLOSED".to_string(),
                        },
                    }
                }),
                inv,
            ))
        }
        CallSpec::DeleteTopic { name } => {
            let tname = TopicName::try_parse(&name)?;
            let inv = json!({"c": c, "op": "DeleteTopic", "name": name, "lib": true});
            Some((
                Box::pin(async move {
                    match w.topics.get_topic(&tname) {
                        Err(_) => "NOT_FOUND".to_string(),
                        Ok(t) => match t.delete().await {
                            Ok(_) => "OK".to_string(),
                            Err(_) => "CLOSED".to_string(),
                        },
                    }
                }),
                inv,
            ))
        }
        CallSpec::ListTopicSubs { topic, size, .. } => {
            let tname = TopicName::try_parse(&topic)?;
            let inv = json!({"c": c, "op": "ListTopicSubs", "topic": topic, "size": size, "token": "", "lib": true});
            Some((
                Box::pin(async move {
                    match w.topics.get_topic(&tname) {
                        Err(_) => "NOT_FOUND".to_string(),
                        Ok(t) => match t.list_subscriptions(deltio::paging::Paging::new(size.max(0) as usize, None)).await {
                            Ok(p) => format!("OK:{}", p.subscriptions.len()),
                            Err(_) => "CLOSED".to_string(),
                        },
                    }
                }),
                inv,
            ))
        }
        CallSpec::GetSub { name } => {
            let sname = SubscriptionName::try_parse(&name)?;
            let inv = json!({"c": c, "op": "GetSub", "name": name, "lib": true});
            Some((
                Box::pin(async move {
                    match w.subs.get_subscription(&sname) {
                        Err(_) => "NOT_FOUND".to_string(),
                        Ok(s) => match s.get_info().await {
                            Ok(_) => "OK".to_string(),
                            Err(_) => "CLOSED".to_string(),
                        },
                    }
                }),
                inv,
            ))
        }
        _ => None,
    }
}

pub async fn poll_drop(world: &Arc<World>, c: usize, spec: CallSpec, polls: usize, yields: usize) {
    let Some((mut fut, inv)) = build(world, c, spec) else {
        world.ev("mark", json!({"name": "polldrop-unsupported"}));
        return;
    };
    world.ev("inv", inv);
    let waker = futures::task::noop_waker();
    let mut cx = Context::from_waker(&waker);
    let mut result = None;
    let mut done_polls = 0;
    for _ in 0..polls {
        done_polls += 1;
        if let Poll::Ready(r) = fut.as_mut().poll(&mut cx) {
            result = Some(r);
            break;
        }
        for _ in 0..yields {
            tokio::task::yield_now().await;
        }
    }
    match result {
        Some(r) => world.ev("lret", json!({"c": c, "res": r, "polls": done_polls})),
        None => {
            drop(fut);
            world.ev("cancel", json!({"c": c, "polls": done_polls, "lib": true}));
        }
    }
}

/// A library-level call that was polled once and is kept alive.
pub struct Held {
    pub c: usize,
    pub fut: Option<Fut>,
    pub done: Option<String>,
}

pub fn hold(world: &Arc<World>, c: usize, spec: CallSpec) -> Option<Held> {
    let (mut fut, inv) = build(world, c, spec)?;
    world.ev("inv", inv);
    let waker = futures::task::noop_waker();
    let mut cx = Context::from_waker(&waker);
    match fut.as_mut().poll(&mut cx) {
        Poll::Ready(r) => Some(Held { c, fut: None, done: Some(r) }),
        Poll::Pending => Some(Held { c, fut: Some(fut), done: None }),
    }
}

pub async fn release(world: &Arc<World>, held: Held) {
    let c = held.c;
    let res = match (held.done, held.fut) {
        (Some(r), _) => Some(r),
        (None, Some(fut)) => tokio::time::timeout(crate::ops::HANG_LIMIT, fut).await.ok(),
        _ => None,
    };
    match res {
        Some(r) => world.ev("lret", json!({"c": c, "res": r})),
        None => world.ev("hang", json!({"c": c, "lib": true})),
    }
}

fn chars(s: &str) -> Vec<String> {
    s.chars().map(|c| c.to_string()).collect()
}

/// Calls `TopicName::try_parse` / `SubscriptionName::try_parse`, the Display of the result and
/// the parser again on that echo. A panic is recorded as `ok = "panic"`.
pub fn parse_event(func: &str, input: &str) -> serde_json::Value {
    let f = func.to_string();
    let inp = input.to_string();
    let result = std::panic::catch_unwind(move || {
        let parse = |s: &str| -> Option<(String, String, String)> {
            if f == "topic" {
                TopicName::try_parse(s).map(|n| (n.verif_project_id().to_string(), n.topic_id().to_string(), n.to_string()))
            } else {
                SubscriptionName::try_parse(s).map(|n| (n.project_id().to_string(), n.subscription_id().to_string(), n.to_string()))
            }
        };
        let first = parse(&inp);
        let second = first.as_ref().and_then(|(_, _, echo)| parse(echo));
        (first, second)
    });
    match result {
        Err(_) => json!({"fn": func, "str": input, "input": chars(input), "ok": "panic"}),
        Ok((first, second)) => {
            let (p, i, e) = first.clone().unwrap_or_default();
            let (p2, i2, _) = second.clone().unwrap_or_default();
            json!({
                "fn": func, "str": input, "input": chars(input), "ok": first.is_some(),
                "project": chars(&p), "id": chars(&i), "echo": chars(&e),
                "echo_ok": second.is_some(), "echo_project": chars(&p2), "echo_id": chars(&i2),
            })
        }
    }
}
