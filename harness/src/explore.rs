//! Seeded concurrent drivers: several client tasks issue random operations over a small
//! pool of names; the interleaving is whatever the seeded single-threaded runtime produces.
use crate::ops::{exec, stream_open, AckRef, CallSpec, MsgSpec};
use crate::replay::drain;
use crate::world::{write_event, Out, World};
use rand::rngs::StdRng;
use rand::{Rng, SeedableRng};
use serde_json::{json, Value};
use std::sync::Arc;
use std::time::Duration;

fn topic(p: usize, t: usize) -> String {
    format!("projects/p{}/topics/t{}", p, t)
}
fn sub(p: usize, s: usize) -> String {
    format!("projects/p{}/subscriptions/s{}", p, s)
}

/// Project of every name of the pool, for the specification's listing filter.
fn proj_map() -> Value {
    let mut m = serde_json::Map::new();
    for p in 1..=2usize {
        for k in 1..=4usize {
            m.insert(topic(p, k), json!(format!("p{}", p)));
            m.insert(sub(p, k), json!(format!("p{}", p)));
        }
    }
    Value::Object(m)
}

struct Profile {
    clients: usize,
    ops: usize,
    streams: usize,
    churn: bool,
    blocking: bool,
    caps: &'static [usize],
    /// Percentage of calls that are abandoned by the client after a few scheduler turns.
    cancel_pct: u32,
}

fn profile(name: &str) -> Profile {
    match name {
        // Data plane only: publishers, competing consumers, ackers, nackers.
        "data" => Profile { clients: 4, ops: 14, streams: 1, churn: false, blocking: true, caps: &[1, 2, 16], cancel_pct: 6 },
        // Competing consumers, many of which walk away from their pulls.
        "consumers" => Profile { clients: 5, ops: 16, streams: 2, churn: false, blocking: true, caps: &[1, 2, 16], cancel_pct: 25 },
        // Control plane churn with data-plane traffic.
        "churn" => Profile { clients: 4, ops: 12, streams: 1, churn: true, blocking: false, caps: &[1, 2, 16], cancel_pct: 0 },
        // Everything.
        _ => Profile { clients: 5, ops: 12, streams: 1, churn: true, blocking: true, caps: &[1, 2, 16], cancel_pct: 5 },
    }
}

pub async fn run(seed: u64, profile_name: &str, out: Option<Out>) -> Vec<Value> {
    let p = profile(profile_name);
    let mut rng = StdRng::seed_from_u64(seed ^ 0x5eed_de17);
    let cap = p.caps[rng.gen_range(0..p.caps.len())];
    let phase = rng.gen_range(0..100u64);
    let header = json!({
        "k": "reset", "i": -1, "t": 0, "run": format!("{}-{}", profile_name, seed), "cap": cap, "seed": seed,
        "meta": {"profile": profile_name, "phase": phase, "clock": "paused", "proj": proj_map()},
    });
    if let Some(out) = &out {
        write_event(out, header.clone());
    }
    let streaming = out.is_some();
    let world = World::start(cap, Some(phase), out).await;

    // Setup by client 0: two topics, two or three subscriptions.
    let acks = [0, 10, 11, 20];
    exec(Arc::clone(&world), 0, CallSpec::CreateTopic { name: topic(1, 1) }).await;
    exec(Arc::clone(&world), 0, CallSpec::CreateTopic { name: topic(1, 2) }).await;
    for s in 1..=3usize {
        if s < 3 || rng.gen_bool(0.5) {
            let t = if s == 3 { 2 } else { 1 };
            let ack = acks[rng.gen_range(0..acks.len())];
            exec(Arc::clone(&world), 0, CallSpec::CreateSub { name: sub(1, s), topic: topic(1, t), ack, push: None }).await;
        }
    }

    let mut handles = Vec::new();
    for c in 1..=p.clients {
        let world = Arc::clone(&world);
        let mut rng = StdRng::seed_from_u64(seed.wrapping_mul(1000).wrapping_add(c as u64));
        let ops = p.ops;
        let churn = p.churn;
        let blocking = p.blocking;
        let cancel_pct = p.cancel_pct;
        handles.push(tokio::spawn(async move {
            let mut published = 0usize;
            for _ in 0..ops {
                // Random pause: nothing, a few yields, or a sleep (possibly across a deadline).
                match rng.gen_range(0..10) {
                    0..=3 => {}
                    4..=6 => {
                        for _ in 0..rng.gen_range(1..4) {
                            tokio::task::yield_now().await;
                        }
                    }
                    7..=8 => tokio::time::sleep(Duration::from_millis(rng.gen_range(1..3000))).await,
                    _ => tokio::time::sleep(Duration::from_millis(rng.gen_range(9000..12000))).await,
                }
                let s = sub(1, rng.gen_range(1..=3));
                let t = topic(1, rng.gen_range(1..=2));
                let known = world.deliveries.lock().unwrap().get(&s).map(|l| l.len()).unwrap_or(0);
                let pick_acks = |rng: &mut StdRng| -> Vec<AckRef> {
                    let n = rng.gen_range(1..=3);
                    (0..n)
                        .map(|_| {
                            if rng.gen_range(0..10) == 0 {
                                AckRef::Literal { lit: format!("{}", rng.gen_range(1..40)) }
                            } else {
                                AckRef::Delivery { d: rng.gen_range(1..=known.max(1) + 1) }
                            }
                        })
                        .collect()
                };
                let roll = rng.gen_range(0..100);
                let call = if roll < 25 {
                    let n = rng.gen_range(1..=3);
                    let msgs = (0..n)
                        .map(|_| {
                            published += 1;
                            MsgSpec { p: format!("m{}-{}", c, published) }
                        })
                        .collect();
                    CallSpec::Publish { topic: t, msgs }
                } else if roll < 50 {
                    let ri = !blocking || rng.gen_bool(0.7);
                    CallSpec::Pull { sub: s, max: rng.gen_range(1..=3), ri }
                } else if roll < 65 {
                    CallSpec::Ack { sub: s, acks: pick_acks(&mut rng) }
                } else if roll < 78 {
                    let secs = [0, 0, 1, 5, 12, 30, 600, 700][rng.gen_range(0..8)];
                    CallSpec::ModAck { sub: s, acks: pick_acks(&mut rng), secs }
                } else if churn && roll < 83 {
                    CallSpec::DeleteSub { name: s }
                } else if churn && roll < 90 {
                    let ack = [0, 10, 11, 20][rng.gen_range(0..4)];
                    CallSpec::CreateSub { name: s, topic: t, ack, push: None }
                } else if churn && roll < 92 {
                    CallSpec::DeleteTopic { name: t }
                } else if churn && roll < 95 {
                    CallSpec::CreateTopic { name: t }
                } else if roll < 97 {
                    CallSpec::GetSub { name: s }
                } else if roll < 98 {
                    CallSpec::ListTopicSubs { topic: t, size: 0, token: String::new() }
                } else if roll < 99 {
                    CallSpec::ListSubs { project: "projects/p1".into(), size: rng.gen_range(0..3), token: String::new() }
                } else {
                    CallSpec::ListTopics { project: "projects/p1".into(), size: 0, token: String::new() }
                };
                // Data-plane calls may be abandoned by their client at an arbitrary scheduler turn.
                let abandon = matches!(call, CallSpec::Pull { .. } | CallSpec::Ack { .. } | CallSpec::ModAck { .. } | CallSpec::Publish { .. })
                    && rng.gen_range(0..100) < cancel_pct;
                if abandon {
                    let handle = tokio::spawn({
                        let world = Arc::clone(&world);
                        async move {
                            let _ = exec(world, c, call).await;
                        }
                    });
                    for _ in 0..rng.gen_range(0..10) {
                        tokio::task::yield_now().await;
                    }
                    if !handle.is_finished() {
                        handle.abort();
                        let _ = handle.await;
                        world.ev("cancel", json!({"c": c}));
                    } else {
                        let _ = handle.await;
                    }
                } else {
                    let _ = exec(Arc::clone(&world), c, call).await;
                }
            }
        }));
    }

    // Streaming consumers: open, every now and then acknowledge what arrived, then close.
    let mut stream_tasks = Vec::new();
    for k in 0..p.streams {
        let c = 50 + k;
        let world = Arc::clone(&world);
        let mut rng = StdRng::seed_from_u64(seed.wrapping_mul(7919).wrapping_add(c as u64));
        stream_tasks.push(tokio::spawn(async move {
            tokio::time::sleep(Duration::from_millis(rng.gen_range(0..2000))).await;
            let s = sub(1, rng.gen_range(1..=2));
            let mut handle = stream_open(Arc::clone(&world), c, s.clone(), rng.gen_range(1..=3), 0).await;
            for _ in 0..rng.gen_range(2..6) {
                tokio::time::sleep(Duration::from_millis(rng.gen_range(1..6000))).await;
                if handle.reader.is_finished() {
                    break;
                }
                let known = world.deliveries.lock().unwrap().get(&s).map(|l| l.len()).unwrap_or(0);
                if known == 0 {
                    continue;
                }
                let d = rng.gen_range(1..=known);
                let d2 = rng.gen_range(1..=known);
                let secs = [0, 2, 30][rng.gen_range(0..3)];
                match rng.gen_range(0..10) {
                    // acknowledgements only
                    0..=4 => handle.send(&world, &[AckRef::Delivery { d }], &[], None),
                    // modifications only
                    5..=6 => handle.send(&world, &[], &[(AckRef::Delivery { d }, secs)], None),
                    // both in one control message
                    7..=8 => handle.send(&world, &[AckRef::Delivery { d }], &[(AckRef::Delivery { d: d2 }, secs)], None),
                    // an empty control message (keep-alive)
                    _ => handle.send(&world, &[], &[], None),
                }
            }
            tokio::time::sleep(Duration::from_millis(rng.gen_range(1..4000))).await;
            if rng.gen_bool(0.5) {
                handle.close(&world);
                // The server keeps the response side open after the request side closed.
                tokio::time::sleep(Duration::from_millis(50)).await;
            }
            handle.abandon(&world);
        }));
    }

    // A prober that records the instants at which the whole server is at rest.
    let prober = {
        let world = Arc::clone(&world);
        let mut rng = StdRng::seed_from_u64(seed.wrapping_mul(31).wrapping_add(7));
        tokio::spawn(async move {
            for _ in 0..12 {
                tokio::time::sleep(Duration::from_millis(rng.gen_range(1..2500))).await;
                crate::replay::quiet(&world).await;
            }
        })
    };
    for h in handles {
        let _ = h.await;
    }
    prober.abort();
    let _ = prober.await;
    for h in stream_tasks {
        let _ = h.await;
    }
    drain(&world, 99).await;
    world.ev("end", json!({}));

    let mut events = Vec::new();
    if !streaming {
        events.push(header);
        events.extend(world.take_events());
    }
    deltio::verif::install_local(None);
    events
}
