//! One running deltio instance behind an in-memory gRPC transport, plus the recorder
//! shared by the server-side hooks and the client-side events of the harness.
use deltio::pubsub_proto::publisher_client::PublisherClient;
use deltio::pubsub_proto::subscriber_client::SubscriberClient;
use deltio::push::PushSubscriptionsRegistry;
use deltio::subscriptions::subscription_manager::SubscriptionManager;
use deltio::topics::topic_manager::TopicManager;
use deltio::verif::Recorder;
use deltio::Deltio;
use hyper_util::rt::TokioIo;
use serde_json::{json, Value};
use std::collections::HashMap;
use std::sync::{Arc, Mutex};
use std::time::Duration;
use tokio::io::DuplexStream;
use tokio::time::Instant;
use tokio_stream::wrappers::UnboundedReceiverStream;
use tokio_stream::StreamExt;
use tonic::transport::{Channel, Endpoint};
use tower::service_fn;

/// Largest integer written to a trace (TLC integers are 32 bit and wrap silently).
pub const HUGE: u64 = 2_000_000_000;

pub struct World {
    pub publisher: PublisherClient<Channel>,
    pub subscriber: SubscriberClient<Channel>,
    pub topics: Arc<TopicManager>,
    pub subs: Arc<SubscriptionManager>,
    pub registry: PushSubscriptionsRegistry,
    pub rec: Arc<Recorder>,
    /// Ack ids received per subscription name since its last successful creation, in order.
    pub deliveries: Mutex<HashMap<String, Vec<String>>>,
    /// Record the characters of name fields and the decodability of page tokens (inputs scenarios).
    pub inputs: std::sync::atomic::AtomicBool,
    /// The largest ack deadline (seconds) any CreateSubscription asked for (how long a drain must wait).
    pub max_ack_secs: std::sync::atomic::AtomicU64,
    /// Keeps the instance alive.
    pub app: Deltio,
    pub start: Instant,
}

impl World {
    /// Starts a fresh instance. Must be called inside a runtime; installs the
    /// thread-local recorder and the capacity override for this thread.
    pub async fn start(capacity: usize, phase_ms: Option<u64>, out: Option<Out>) -> Arc<World> {
        // Align the hand-out phase relative to the server's rounding grid, if asked to.
        if let Some(phase) = phase_ms {
            let epoch = deltio::subscriptions::verif_rounding_epoch();
            let now = Instant::now();
            let since = now.saturating_duration_since(epoch).as_micros() as u64;
            let cur = since % 100_000;
            let want = (phase % 100) * 1000;
            let delta = (want + 100_000 - cur) % 100_000;
            if delta > 0 {
                tokio::time::advance(Duration::from_micros(delta)).await;
            }
        }
        let start = Instant::now();
        let rec = match out {
            None => Recorder::new(start),
            Some(out) => Recorder::with_sink(
                start,
                Box::new(move |event: &Value| write_event(&out, event.clone())),
            ),
        };
        deltio::verif::install_local(Some(Arc::clone(&rec)));
        deltio::verif::set_local_capacity(capacity);

        let app = Deltio::new();
        let (topics, subs, registry) = app.verif_parts();

        let (conn_tx, conn_rx) = tokio::sync::mpsc::unbounded_channel::<DuplexStream>();
        let incoming = UnboundedReceiverStream::new(conn_rx).map(Ok::<_, std::io::Error>);
        let router = app.server_builder();
        tokio::spawn(async move {
            let _ = router.serve_with_incoming(incoming).await;
        });

        let channel = Endpoint::try_from("http://in.memory")
            .unwrap()
            .connect_with_connector(service_fn(move |_| {
                let conn_tx = conn_tx.clone();
                async move {
                    let (client, server) = tokio::io::duplex(1 << 20);
                    conn_tx
                        .send(server)
                        .map_err(|_| std::io::Error::new(std::io::ErrorKind::Other, "server gone"))?;
                    Ok::<_, std::io::Error>(TokioIo::new(client))
                }
            }))
            .await
            .expect("in-memory connect");

        Arc::new(World {
            publisher: PublisherClient::new(channel.clone())
                .max_decoding_message_size(64 << 20)
                .max_encoding_message_size(64 << 20),
            subscriber: SubscriberClient::new(channel)
                .max_decoding_message_size(64 << 20)
                .max_encoding_message_size(64 << 20),
            topics,
            subs,
            registry,
            rec,
            deliveries: Mutex::new(HashMap::new()),
            inputs: std::sync::atomic::AtomicBool::new(false),
            max_ack_secs: std::sync::atomic::AtomicU64::new(0),
            app,
            start,
        })
    }

    /// Starts an instance whose events go to the process-wide recorder (multi-threaded runs).
    pub async fn start_global(capacity: usize, out: Option<Out>) -> Arc<World> {
        let start = Instant::now();
        let rec = match out {
            None => Recorder::new(start),
            Some(out) => Recorder::with_sink(start, Box::new(move |event: &Value| write_event(&out, event.clone()))),
        };
        deltio::verif::install_global(Some(Arc::clone(&rec)));
        let _ = capacity;
        let app = Deltio::new();
        let (topics, subs, registry) = app.verif_parts();
        let (conn_tx, conn_rx) = tokio::sync::mpsc::unbounded_channel::<DuplexStream>();
        let incoming = UnboundedReceiverStream::new(conn_rx).map(Ok::<_, std::io::Error>);
        let router = app.server_builder();
        tokio::spawn(async move {
            let _ = router.serve_with_incoming(incoming).await;
        });
        let channel = Endpoint::try_from("http://in.memory")
            .unwrap()
            .connect_with_connector(service_fn(move |_| {
                let conn_tx = conn_tx.clone();
                async move {
                    let (client, server) = tokio::io::duplex(1 << 20);
                    conn_tx
                        .send(server)
                        .map_err(|_| std::io::Error::new(std::io::ErrorKind::Other, "server gone"))?;
                    Ok::<_, std::io::Error>(TokioIo::new(client))
                }
            }))
            .await
            .expect("in-memory connect");
        Arc::new(World {
            publisher: PublisherClient::new(channel.clone()),
            subscriber: SubscriberClient::new(channel),
            topics,
            subs,
            registry,
            rec,
            deliveries: Mutex::new(HashMap::new()),
            inputs: std::sync::atomic::AtomicBool::new(false),
            max_ack_secs: std::sync::atomic::AtomicU64::new(0),
            app,
            start,
        })
    }

    pub fn ev(&self, kind: &str, fields: Value) {
        let mut fields = fields;
        if kind == "inv" && self.inputs.load(std::sync::atomic::Ordering::SeqCst) {
            if let Value::Object(map) = &mut fields {
                let mut extra = Vec::new();
                for key in ["name", "topic", "sub", "project"] {
                    if let Some(Value::String(s)) = map.get(key) {
                        let limited: Vec<String> = s.chars().take(600).map(|c| c.to_string()).collect();
                        extra.push((format!("{}_chars", key), json!(limited)));
                        extra.push((format!("{}_long", key), json!(s.chars().count() > 600)));
                    }
                }
                if let Some(Value::String(t)) = map.get("token") {
                    use base64::Engine;
                    let ok = t.is_empty()
                        || base64::engine::general_purpose::STANDARD.decode(t).map(|b| b.len() == 8).unwrap_or(false);
                    extra.push(("token_decodable".to_string(), json!(ok)));
                }
                for (k, v) in extra {
                    map.insert(k, v);
                }
            }
        }
        self.rec.push(kind, fields);
    }

    pub fn now_ms(&self) -> u64 {
        self.rec.ms(Instant::now())
    }

    /// Takes the recorded events, made safe for TLC's JSON reader.
    pub fn take_events(&self) -> Vec<Value> {
        self.rec.take().into_iter().map(sanitize).collect()
    }
}

/// Where a worker thread streams its events to.
pub type Out = Arc<Mutex<std::fs::File>>;

/// Writes one event as one line, at once (so that it survives an abort of the process).
pub fn write_event(out: &Out, event: Value) {
    use std::io::Write;
    let mut line = serde_json::to_vec(&sanitize(event)).unwrap();
    line.push(b'\n');
    let _ = out.lock().unwrap().write_all(&line);
}

/// TLC's Json module rejects `null` and wraps integers above 2^31: map `null` to -1
/// (or "" for the string-valued fields) and clamp large integers.
pub fn sanitize(value: Value) -> Value {
    fn go(key: Option<&str>, value: Value) -> Value {
        match value {
            Value::Null => match key {
                Some("push") | Some("endpoint") => json!(""),
                _ => json!(-1),
            },
            Value::Number(n) => {
                if let Some(u) = n.as_u64() {
                    json!(u.min(HUGE))
                } else if let Some(i) = n.as_i64() {
                    json!(i.max(-(HUGE as i64)))
                } else {
                    json!(n.to_string())
                }
            }
            Value::Array(items) => Value::Array(items.into_iter().map(|v| go(key, v)).collect()),
            Value::Object(map) => Value::Object(
                map.into_iter()
                    .map(|(k, v)| {
                        let v = go(Some(k.as_str()), v);
                        (k, v)
                    })
                    .collect(),
            ),
            other => other,
        }
    }
    go(None, value)
}

/// Splits a wire message id into `[topic internal id, per-topic number]`.
pub fn split_id(id: &str) -> Value {
    match id.parse::<u64>() {
        Ok(v) => json!([v >> 32, v & 0xffff_ffff]),
        Err(_) => json!([-1, -1]),
    }
}

/// A short, injective-in-practice description of a payload.
pub fn digest(data: &[u8]) -> String {
    if data.len() <= 24 {
        let mut s = String::with_capacity(2 + data.len() * 2);
        s.push_str("x:");
        for b in data {
            s.push_str(&format!("{:02x}", b));
        }
        s
    } else {
        // FNV-1a 64 over the whole payload plus its length.
        let mut h: u64 = 0xcbf29ce484222325;
        for b in data {
            h ^= *b as u64;
            h = h.wrapping_mul(0x100000001b3);
        }
        format!("h:{}:{:016x}", data.len(), h)
    }
}

/// Attributes as a sorted list of `[key, value]` pairs.
pub fn attrs_list(attrs: &HashMap<String, String>) -> Value {
    let mut pairs = attrs.iter().collect::<Vec<_>>();
    pairs.sort();
    json!(pairs.into_iter().map(|(k, v)| json!([k, v])).collect::<Vec<_>>())
}
