//! Client operations: every call is recorded as an `inv` event, executed through the
//! in-memory gRPC transport and recorded as a `ret` event with a projection of the response.
use crate::world::{attrs_list, digest, split_id, World};
use deltio::pubsub_proto::{
    AcknowledgeRequest, DeleteSubscriptionRequest, DeleteTopicRequest, GetSubscriptionRequest,
    GetTopicRequest, ListSubscriptionsRequest, ListTopicSubscriptionsRequest, ListTopicsRequest,
    ModifyAckDeadlineRequest, PublishRequest, PubsubMessage, PullRequest, PushConfig,
    ReceivedMessage, StreamingPullRequest, Subscription, Topic,
};
use serde::Deserialize;
use serde_json::{json, Value};
use std::collections::HashMap;
use std::sync::Arc;
use std::time::Duration;
use tonic::{Code, Status};

/// How long (virtual time) a call may stay pending before it is recorded as hung.
pub const HANG_LIMIT: Duration = Duration::from_secs(3600);

#[derive(Debug, Clone, Deserialize)]
pub struct MsgSpec {
    /// Payload class; see `payload`.
    pub p: String,
}

#[derive(Debug, Clone, Deserialize)]
#[serde(untagged)]
pub enum AckRef {
    /// The k-th (1-based) delivery received on that subscription name since its creation.
    Delivery { d: usize },
    /// A literal ack id string.
    Literal { lit: String },
}

#[derive(Debug, Clone, Deserialize)]
#[serde(tag = "op")]
pub enum CallSpec {
    CreateTopic { name: String },
    GetTopic { name: String },
    DeleteTopic { name: String },
    ListTopics { project: String, size: i32, token: String },
    ListTopicSubs { topic: String, size: i32, token: String },
    Publish { topic: String, msgs: Vec<MsgSpec> },
    CreateSub { name: String, topic: String, ack: i32, #[serde(default)] push: Option<String> },
    GetSub { name: String },
    DeleteSub { name: String },
    ListSubs { project: String, size: i32, token: String },
    Pull { sub: String, max: i32, ri: bool },
    Ack { sub: String, acks: Vec<AckRef> },
    ModAck { sub: String, acks: Vec<AckRef>, secs: i32 },
    /// One of the RPCs the emulator does not implement; `name` goes into the request's main field.
    Other { rpc: String, name: String },
}

/// Maps a payload class of the model to concrete bytes and attributes.
pub fn payload(class: &str) -> (Vec<u8>, HashMap<String, String>) {
    let mut attrs = HashMap::new();
    // `name#k` makes k-distinguishable variants of a class.
    let (base, tag) = match class.split_once('#') {
        Some((b, t)) => (b, t),
        None => (class, ""),
    };
    let data = match base {
        "empty" => {
            attrs.insert("only".to_string(), format!("attrs{}", tag));
            Vec::new()
        }
        "bin" => {
            let mut d = (0u16..256).map(|b| b as u8).collect::<Vec<_>>();
            d.extend_from_slice(tag.as_bytes());
            attrs.insert("k".into(), "v".into());
            d
        }
        "big" => {
            let mut d = Vec::with_capacity(1 << 20);
            let seed = tag.bytes().fold(7u32, |a, b| a.wrapping_mul(31).wrapping_add(b as u32));
            let mut x = seed | 1;
            for _ in 0..(1 << 20) {
                x ^= x << 13;
                x ^= x >> 17;
                x ^= x << 5;
                d.push(x as u8);
            }
            d
        }
        "attrs" => {
            for i in 0..50 {
                attrs.insert(format!("key-{}-{}", tag, i), format!("value {}", i));
            }
            format!("attrs{}", tag).into_bytes()
        }
        "ws" => {
            // whitespace (ASCII and Unicode) at the edges of keys and values, keys that differ only in it
            attrs.insert(" padded-key ".into(), format!("  indented{}", tag));
            attrs.insert("line".into(), "first line\n".into());
            attrs.insert("k".into(), "plain".into());
            attrs.insert("k ".into(), "trailing space in the key".into());
            attrs.insert("\u{3000}キー".into(), "値\u{00A0}".into());
            attrs.insert("tab\t".into(), "\tvalue\t".into());
            format!(" ws{} ", tag).into_bytes()
        }
        "utf8" => {
            attrs.insert("ключ".into(), "значение ✓".into());
            attrs.insert("键".into(), format!("值{}", tag));
            "héllo wörld ✓".as_bytes().to_vec()
        }
        other => {
            // Plain text payload named after the class itself.
            let _ = other;
            class.as_bytes().to_vec()
        }
    };
    (data, attrs)
}

pub fn code_name(code: Code) -> &'static str {
    match code {
        Code::Ok => "OK",
        Code::Cancelled => "CANCELLED",
        Code::Unknown => "UNKNOWN",
        Code::InvalidArgument => "INVALID_ARGUMENT",
        Code::DeadlineExceeded => "DEADLINE_EXCEEDED",
        Code::NotFound => "NOT_FOUND",
        Code::AlreadyExists => "ALREADY_EXISTS",
        Code::PermissionDenied => "PERMISSION_DENIED",
        Code::ResourceExhausted => "RESOURCE_EXHAUSTED",
        Code::FailedPrecondition => "FAILED_PRECONDITION",
        Code::Aborted => "ABORTED",
        Code::OutOfRange => "OUT_OF_RANGE",
        Code::Unimplemented => "UNIMPLEMENTED",
        Code::Internal => "INTERNAL",
        Code::Unavailable => "UNAVAILABLE",
        Code::DataLoss => "DATA_LOSS",
        Code::Unauthenticated => "UNAUTHENTICATED",
    }
}

pub fn received_to_json(world: &World, sub: &str, received: &[ReceivedMessage]) -> Value {
    let mut deliveries = world.deliveries.lock().unwrap();
    let list = deliveries.entry(sub.to_string()).or_default();
    let mut out = Vec::new();
    let light = deltio::verif::light();
    for (idx, r) in received.iter().enumerate() {
        if light && idx >= 3 {
            list.push(r.ack_id.clone());
            continue;
        }
        list.push(r.ack_id.clone());
        let m = r.message.clone().unwrap_or_default();
        let ack = match r.ack_id.parse::<u64>() {
            Ok(v) if v < crate::world::HUGE => json!(v),
            _ => json!(-1),
        };
        out.push(json!({
            "ack": ack,
            "acks": r.ack_id,
            "m": split_id(&m.message_id),
            "raw": m.message_id,
            "data": digest(&m.data),
            "attrs": attrs_list(&m.attributes),
            "pt": m.publish_time.map(|t| format!("{}.{:09}", t.seconds, t.nanos)).unwrap_or_default(),
            "ok": m.ordering_key,
        }));
    }
    json!(out)
}

fn resolve_acks(world: &World, sub: &str, acks: &[AckRef]) -> Vec<String> {
    let deliveries = world.deliveries.lock().unwrap();
    let list = deliveries.get(sub);
    acks.iter()
        .map(|a| match a {
            AckRef::Literal { lit } => lit.clone(),
            AckRef::Delivery { d } => list
                .and_then(|l| l.get(d.wrapping_sub(1)).cloned())
                // Not delivered (yet): an id that no subscription issues.
                .unwrap_or_else(|| format!("{}", 900_000 + d)),
        })
        .collect()
}

/// Ack ids as integers; an id that is not a decimal number is written as -1 (and counted by `bad_acks`).
fn acks_json(acks: &[String]) -> Value {
    json!(acks
        .iter()
        .map(|a| match a.parse::<u64>() {
            Ok(v) => json!(v.min(crate::world::HUGE)),
            _ => json!(-1),
        })
        .collect::<Vec<_>>())
}

fn bad_acks(acks: &[String]) -> usize {
    acks.iter().filter(|a| a.parse::<u64>().is_err()).count()
}

fn sub_json(s: &Subscription) -> Value {
    json!({
        "name": s.name,
        "topic": s.topic,
        "ack": s.ack_deadline_seconds,
        "push": s.push_config.as_ref().map(|p| p.push_endpoint.clone()).unwrap_or_default(),
    })
}

fn status_ret(status: &Status) -> (String, Value) {
    (code_name(status.code()).to_string(), json!({}))
}

/// Executes one call for client `c`, recording `inv`, then `ret` (or `hang`).
pub async fn exec(world: Arc<World>, c: usize, spec: CallSpec) -> Option<(String, Value)> {
    let fut = exec_inner(Arc::clone(&world), c, spec);
    match tokio::time::timeout(HANG_LIMIT, fut).await {
        Ok(r) => Some(r),
        Err(_) => {
            world.ev("hang", json!({"c": c}));
            None
        }
    }
}

async fn exec_inner(world: Arc<World>, c: usize, spec: CallSpec) -> (String, Value) {
    let mut publisher = world.publisher.clone();
    let mut subscriber = world.subscriber.clone();
    let (code, body): (String, Value) = match spec {
        CallSpec::CreateTopic { name } => {
            world.ev("inv", json!({"c": c, "op": "CreateTopic", "name": name}));
            match publisher
                .create_topic(Topic { name, ..Default::default() })
                .await
            {
                Ok(r) => ("OK".into(), json!({"name": r.get_ref().name})),
                Err(s) => status_ret(&s),
            }
        }
        CallSpec::Other { rpc, name } => {
            use deltio::pubsub_proto as pb;
            world.ev("inv", json!({"c": c, "op": "Other", "rpc": rpc, "name": name}));
            let n = name.clone();
            let mask = Some(prost_types::FieldMask { paths: vec!["labels".to_string()] });
            let r: Result<(), Status> = match rpc.as_str() {
                "UpdateTopic" => publisher
                    .update_topic(pb::UpdateTopicRequest { topic: Some(Topic { name: n, ..Default::default() }), update_mask: mask })
                    .await
                    .map(|_| ()),
                "ListTopicSnapshots" => publisher
                    .list_topic_snapshots(pb::ListTopicSnapshotsRequest { topic: n, page_size: 0, page_token: String::new() })
                    .await
                    .map(|_| ()),
                "DetachSubscription" => publisher
                    .detach_subscription(pb::DetachSubscriptionRequest { subscription: n })
                    .await
                    .map(|_| ()),
                "UpdateSubscription" => subscriber
                    .update_subscription(pb::UpdateSubscriptionRequest {
                        subscription: Some(Subscription { name: n, ack_deadline_seconds: 77, ..Default::default() }),
                        update_mask: mask,
                    })
                    .await
                    .map(|_| ()),
                "ModifyPushConfig" => subscriber
                    .modify_push_config(pb::ModifyPushConfigRequest {
                        subscription: n,
                        push_config: Some(PushConfig { push_endpoint: "http://127.0.0.1:9/x".into(), ..Default::default() }),
                    })
                    .await
                    .map(|_| ()),
                "GetSnapshot" => subscriber.get_snapshot(pb::GetSnapshotRequest { snapshot: n }).await.map(|_| ()),
                "ListSnapshots" => subscriber
                    .list_snapshots(pb::ListSnapshotsRequest { project: n, page_size: 0, page_token: String::new() })
                    .await
                    .map(|_| ()),
                "CreateSnapshot" => subscriber
                    .create_snapshot(pb::CreateSnapshotRequest { name: "projects/p1/snapshots/x".into(), subscription: n, ..Default::default() })
                    .await
                    .map(|_| ()),
                "UpdateSnapshot" => subscriber
                    .update_snapshot(pb::UpdateSnapshotRequest { snapshot: Some(pb::Snapshot { name: n, ..Default::default() }), update_mask: mask })
                    .await
                    .map(|_| ()),
                "DeleteSnapshot" => subscriber.delete_snapshot(pb::DeleteSnapshotRequest { snapshot: n }).await.map(|_| ()),
                "Seek" => subscriber.seek(pb::SeekRequest { subscription: n, target: None }).await.map(|_| ()),
                _ => Err(Status::unknown("harness: no such rpc")),
            };
            match r {
                Ok(()) => ("OK".into(), json!({})),
                Err(s) => status_ret(&s),
            }
        }
        CallSpec::GetTopic { name } => {
            world.ev("inv", json!({"c": c, "op": "GetTopic", "name": name}));
            match publisher.get_topic(GetTopicRequest { topic: name }).await {
                Ok(r) => ("OK".into(), json!({"name": r.get_ref().name})),
                Err(s) => status_ret(&s),
            }
        }
        CallSpec::DeleteTopic { name } => {
            world.ev("inv", json!({"c": c, "op": "DeleteTopic", "name": name}));
            match publisher.delete_topic(DeleteTopicRequest { topic: name }).await {
                Ok(_) => ("OK".into(), json!({})),
                Err(s) => status_ret(&s),
            }
        }
        CallSpec::ListTopics { project, size, token } => {
            world.ev("inv", json!({"c": c, "op": "ListTopics", "project": project, "size": size, "token": token}));
            match publisher
                .list_topics(ListTopicsRequest { project, page_size: size, page_token: token })
                .await
            {
                Ok(r) => {
                    let r = r.into_inner();
                    (
                        "OK".into(),
                        json!({"names": r.topics.iter().map(|t| t.name.clone()).collect::<Vec<_>>(), "next": r.next_page_token}),
                    )
                }
                Err(s) => status_ret(&s),
            }
        }
        CallSpec::ListTopicSubs { topic, size, token } => {
            world.ev("inv", json!({"c": c, "op": "ListTopicSubs", "topic": topic, "size": size, "token": token}));
            match publisher
                .list_topic_subscriptions(ListTopicSubscriptionsRequest { topic, page_size: size, page_token: token })
                .await
            {
                Ok(r) => {
                    let r = r.into_inner();
                    ("OK".into(), json!({"names": r.subscriptions, "next": r.next_page_token}))
                }
                Err(s) => status_ret(&s),
            }
        }
        CallSpec::ListSubs { project, size, token } => {
            world.ev("inv", json!({"c": c, "op": "ListSubs", "project": project, "size": size, "token": token}));
            match subscriber
                .list_subscriptions(ListSubscriptionsRequest { project, page_size: size, page_token: token })
                .await
            {
                Ok(r) => {
                    let r = r.into_inner();
                    (
                        "OK".into(),
                        json!({
                            "names": r.subscriptions.iter().map(|s| s.name.clone()).collect::<Vec<_>>(),
                            "subs": r.subscriptions.iter().map(sub_json).collect::<Vec<_>>(),
                            "next": r.next_page_token,
                        }),
                    )
                }
                Err(s) => status_ret(&s),
            }
        }
        CallSpec::Publish { topic, msgs } => {
            // `bulk:N` stands for N small distinguishable messages in one request.
            let msgs = match msgs.as_slice() {
                [one] if one.p.starts_with("bulk:") => {
                    let n = one.p[5..].parse::<usize>().unwrap_or(1);
                    (0..n).map(|i| MsgSpec { p: format!("k{}", i) }).collect::<Vec<_>>()
                }
                _ => msgs,
            };
            let light = deltio::verif::light();
            let messages = msgs
                .iter()
                .map(|m| {
                    // `key:<k>:<class>` publishes <class> with ordering key <k>
                    let (ordering_key, class) = match m.p.strip_prefix("key:").and_then(|r| r.split_once(':')) {
                        Some((k, rest)) => (k.to_string(), rest.to_string()),
                        None => (String::new(), m.p.clone()),
                    };
                    let (data, attributes) = payload(&class);
                    PubsubMessage { data, attributes, ordering_key, ..Default::default() }
                })
                .collect::<Vec<_>>();
            world.ev(
                "inv",
                json!({"c": c, "op": "Publish", "topic": topic, "n": messages.len(),
                       "msgs": messages.iter().take(if light { 3 } else { usize::MAX })
                           .map(|m| json!({"data": digest(&m.data), "attrs": attrs_list(&m.attributes)})).collect::<Vec<_>>()}),
            );
            match publisher.publish(PublishRequest { topic, messages }).await {
                Ok(r) => (
                    "OK".into(),
                    json!({"ids": r.get_ref().message_ids.iter().take(if light { 3 } else { usize::MAX }).map(|i| split_id(i)).collect::<Vec<_>>(),
                           "raw": r.get_ref().message_ids.iter().take(if light { 3 } else { usize::MAX }).cloned().collect::<Vec<_>>(),
                           "n": r.get_ref().message_ids.len()}),
                ),
                Err(s) => status_ret(&s),
            }
        }
        CallSpec::CreateSub { name, topic, ack, push } => {
            if ack > 0 && ack <= 100_000 {
                world.max_ack_secs.fetch_max(ack as u64, std::sync::atomic::Ordering::SeqCst);
            }
            world.ev(
                "inv",
                json!({"c": c, "op": "CreateSub", "name": name, "topic": topic, "ack": ack, "push": push.clone().unwrap_or_default(),
                       "push_http": push.as_ref().map(|p| p.trim().starts_with("http")).unwrap_or(true)}),
            );
            let request = Subscription {
                name: name.clone(),
                topic,
                ack_deadline_seconds: ack,
                push_config: push.map(|p| PushConfig { push_endpoint: p, ..Default::default() }),
                ..Default::default()
            };
            match subscriber.create_subscription(request).await {
                Ok(r) => {
                    world.deliveries.lock().unwrap().insert(name, Vec::new());
                    ("OK".into(), sub_json(r.get_ref()))
                }
                Err(s) => status_ret(&s),
            }
        }
        CallSpec::GetSub { name } => {
            world.ev("inv", json!({"c": c, "op": "GetSub", "name": name}));
            match subscriber
                .get_subscription(GetSubscriptionRequest { subscription: name })
                .await
            {
                Ok(r) => ("OK".into(), sub_json(r.get_ref())),
                Err(s) => status_ret(&s),
            }
        }
        CallSpec::DeleteSub { name } => {
            world.ev("inv", json!({"c": c, "op": "DeleteSub", "name": name}));
            match subscriber
                .delete_subscription(DeleteSubscriptionRequest { subscription: name })
                .await
            {
                Ok(_) => ("OK".into(), json!({})),
                Err(s) => status_ret(&s),
            }
        }
        CallSpec::Pull { sub, max, ri } => {
            world.ev("inv", json!({"c": c, "op": "Pull", "sub": sub, "max": max, "ri": ri}));
            #[allow(deprecated)]
            let request = PullRequest { subscription: sub.clone(), max_messages: max, return_immediately: ri };
            match subscriber.pull(request).await {
                Ok(r) => (
                    "OK".into(),
                    json!({"msgs": received_to_json(&world, &sub, &r.get_ref().received_messages),
                           "n": r.get_ref().received_messages.len()}),
                ),
                Err(s) => status_ret(&s),
            }
        }
        CallSpec::Ack { sub, acks } => {
            let ack_ids = resolve_acks(&world, &sub, &acks);
            world.ev("inv", json!({"c": c, "op": "Ack", "sub": sub, "acks": acks_json(&ack_ids), "bad": bad_acks(&ack_ids), "raw": ack_ids}));
            match subscriber
                .acknowledge(AcknowledgeRequest { subscription: sub, ack_ids })
                .await
            {
                Ok(_) => ("OK".into(), json!({})),
                Err(s) => status_ret(&s),
            }
        }
        CallSpec::ModAck { sub, acks, secs } => {
            let ack_ids = resolve_acks(&world, &sub, &acks);
            world.ev("inv", json!({"c": c, "op": "ModAck", "sub": sub, "acks": acks_json(&ack_ids), "bad": bad_acks(&ack_ids), "raw": ack_ids, "secs": secs}));
            match subscriber
                .modify_ack_deadline(ModifyAckDeadlineRequest { subscription: sub, ack_ids, ack_deadline_seconds: secs })
                .await
            {
                Ok(_) => ("OK".into(), json!({})),
                Err(s) => status_ret(&s),
            }
        }
    };
    world.ev("ret", json!({"c": c, "code": code, "body": body}));
    (code, body)
}

/// An open StreamingPull as seen by the harness.
pub struct StreamHandle {
    pub c: usize,
    pub sub: String,
    pub tx: Option<tokio::sync::mpsc::UnboundedSender<StreamingPullRequest>>,
    pub reader: tokio::task::JoinHandle<()>,
}

/// Opens a StreamingPull for client `c`; responses are recorded by a reader task as
/// `srecv` events and the end of the stream as one `send` event.
pub async fn stream_open(world: Arc<World>, c: usize, sub: String, max_msgs: i64, max_bytes: i64) -> StreamHandle {
    let (tx, rx) = tokio::sync::mpsc::unbounded_channel::<StreamingPullRequest>();
    world.ev("inv", json!({"c": c, "op": "StreamOpen", "sub": sub, "max": max_msgs, "maxb": max_bytes}));
    let _ = tx.send(StreamingPullRequest {
        subscription: sub.clone(),
        stream_ack_deadline_seconds: 10,
        max_outstanding_messages: max_msgs,
        max_outstanding_bytes: max_bytes,
        ..Default::default()
    });
    let mut subscriber = world.subscriber.clone();
    let reader = {
        let world = Arc::clone(&world);
        let sub = sub.clone();
        tokio::spawn(async move {
            let stream = tokio_stream::wrappers::UnboundedReceiverStream::new(rx);
            let opened = tokio::time::timeout(HANG_LIMIT, subscriber.streaming_pull(stream)).await;
            let mut streaming = match opened {
                Err(_) => {
                    world.ev("hang", json!({"c": c}));
                    return;
                }
                Ok(Err(status)) => {
                    world.ev("send", json!({"c": c, "code": code_name(status.code()), "opened": false}));
                    return;
                }
                Ok(Ok(r)) => {
                    world.ev("sopened", json!({"c": c}));
                    r.into_inner()
                }
            };
            loop {
                match streaming.message().await {
                    Ok(Some(response)) => {
                        world.ev(
                            "srecv",
                            json!({"c": c, "msgs": received_to_json(&world, &sub, &response.received_messages)}),
                        );
                    }
                    Ok(None) => {
                        world.ev("send", json!({"c": c, "code": "EOS", "opened": true}));
                        return;
                    }
                    Err(status) => {
                        world.ev("send", json!({"c": c, "code": code_name(status.code()), "opened": true}));
                        return;
                    }
                }
            }
        })
    };
    StreamHandle { c, sub, tx: Some(tx), reader }
}

impl StreamHandle {
    /// Sends a control message (acks and/or deadline modifications).
    pub fn send(&self, world: &World, acks: &[AckRef], mods: &[(AckRef, i32)], raw: Option<(String, i64, i64, Option<Vec<i32>>)>) {
        let ack_ids = resolve_acks(world, &self.sub, acks);
        let mod_ids = resolve_acks(world, &self.sub, &mods.iter().map(|m| m.0.clone()).collect::<Vec<_>>());
        let mod_secs = mods.iter().map(|m| m.1).collect::<Vec<_>>();
        let mut request = StreamingPullRequest {
            ack_ids: ack_ids.clone(),
            modify_deadline_ack_ids: mod_ids.clone(),
            modify_deadline_seconds: mod_secs.clone(),
            ..Default::default()
        };
        if let Some((rsub, rmax, rmaxb, rsecs)) = raw {
            request.subscription = rsub;
            request.max_outstanding_messages = rmax;
            request.max_outstanding_bytes = rmaxb;
            if let Some(secs) = rsecs {
                request.modify_deadline_seconds = secs;
            }
        }
        world.ev(
            "ssend",
            json!({"c": self.c, "sub": self.sub, "acks": acks_json(&request.ack_ids),
                   "mods": acks_json(&request.modify_deadline_ack_ids), "secs": request.modify_deadline_seconds,
                   "bad": bad_acks(&request.ack_ids) + bad_acks(&request.modify_deadline_ack_ids),
                   "rsub": request.subscription, "rmax": request.max_outstanding_messages, "rmaxb": request.max_outstanding_bytes,
                   "open": self.tx.is_some()}),
        );
        if let Some(tx) = &self.tx {
            let _ = tx.send(request);
        }
    }

    /// Closes the request side of the stream.
    pub fn close(&mut self, world: &World) {
        world.ev("sclose", json!({"c": self.c}));
        self.tx = None;
    }

    /// Abandons the stream on the client side.
    pub fn abandon(&mut self, world: &World) {
        world.ev("cancel", json!({"c": self.c}));
        self.tx = None;
        self.reader.abort();
    }
}
